package rules

// Seeded variants for the thorough-tier self-test (DESIGN.md Appendix A). Each edits one file of the
// current tree in memory; the named rule must report it.
func init() {
	refl := "interceptor/reflection.go"
	acl := "interceptor/access_control.go"
	cc := "proxy/cluster_connection.go"
	tri := "interceptor/translation_interceptor.go"
	wfs := "proxy/workflowservice.go"

	// ---- C12
	addVariants(
		Variant{Name: "drop WorkflowNamespace from namespaceFieldNames", Property: "C12", File: refl,
			Old: "\t\t\"WorkflowNamespace\":       true, // PollActivityTaskQueueResponse\n", New: "", Expect: "O12.1"},
		Variant{Name: "drop EventBatch from dataBlobFieldNames", Property: "C12", File: refl,
			Old: "\t\t\"EventBatch\":     true, // NewRunInfo type\n", New: "", Expect: "O12.2"},
		Variant{Name: "add CHILD_WORKFLOW_EXECUTION_STARTED to the skip list", Property: "C12", File: refl,
			Old: "\t\tenums.EVENT_TYPE_TIMER_STARTED:                       {},\n", New: "\t\tenums.EVENT_TYPE_TIMER_STARTED:                       {},\n\t\tenums.EVENT_TYPE_CHILD_WORKFLOW_EXECUTION_STARTED: {},\n", Expect: "O12.3"},
		Variant{Name: "add WORKFLOW_EXECUTION_FAILED (failure chain) to the skip list", Property: "C12", File: refl,
			Old: "\t\tenums.EVENT_TYPE_TIMER_STARTED:                       {},\n", New: "\t\tenums.EVENT_TYPE_TIMER_STARTED:                       {},\n\t\tenums.EVENT_TYPE_WORKFLOW_EXECUTION_FAILED: {},\n", Expect: "O12.3"},
		Variant{Name: "return Skip for interface values", Property: "C12", File: refl,
			Old: "\t\tif info, ok := vwp.Interface().(*namespace.NamespaceInfo); ok && info != nil {", New: "\t\tif vwp.Kind() == reflect.Interface {\n\t\t\treturn visit.Skip, nil\n\t\t}\n\t\tif info, ok := vwp.Interface().(*namespace.NamespaceInfo); ok && info != nil {", Expect: "O12.4"},
		Variant{Name: "shortcut no longer looks at event links", Property: "C12", File: refl,
			Old: "\tcase *history.HistoryEvent:\n\t\t// If this namespace field is set, do not skip translation.\n\t\tfor _, l := range v.Links {\n\t\t\tif len(l.GetWorkflowEvent().GetNamespace()) > 0 {\n\t\t\t\treturn false\n\t\t\t}\n\t\t}\n", New: "\tcase *history.HistoryEvent:\n", Expect: "O12.3"},
		Variant{Name: "shortcut a response type that carries namespaces", Property: "C12", File: refl,
			Old: "\tcase *workflowservice.ListWorkflowExecutionsResponse:\n\t\treturn true\n", New: "\tcase *workflowservice.ListWorkflowExecutionsResponse:\n\t\treturn true\n\tcase *workflowservice.DescribeNamespaceResponse:\n\t\treturn true\n", Expect: "O12.3"},
		Variant{Name: "Stop without error on a data blob", Property: "C12", File: refl,
			Old: "\t\t\tchanged, err := visitDataBlobs(logger, vwp, match, visitNamespace)\n\t\t\tmatched = matched || changed\n\t\t\tif err != nil {\n\t\t\t\treturn visit.Stop, err\n\t\t\t}", New: "\t\t\tchanged, err := visitDataBlobs(logger, vwp, match, visitNamespace)\n\t\t\tmatched = matched || changed\n\t\t\tif err != nil {\n\t\t\t\treturn visit.Stop, nil\n\t\t\t}", Expect: "O12.4"},
		Variant{Name: "handler called before request translation", Property: "C12", File: tri,
			Old: "\tmethodName := api.MethodName(info.FullMethod)\n\n\tfor _, tr := range i.translators {", New: "\tmethodName := api.MethodName(info.FullMethod)\n\tif len(i.translators) == 1 {\n\t\treturn handler(ctx, req)\n\t}\n\n\tfor _, tr := range i.translators {", Expect: "O12.5"},
		Variant{Name: "widen the translation bypass to one admin method", Property: "C12", File: tri,
			Old: "\tif common.IsRequestTranslationDisabled(ctx) || len(i.translators) == 0 ||", New: "\tif common.IsRequestTranslationDisabled(ctx) || len(i.translators) == 0 || strings.HasSuffix(info.FullMethod, \"GetReplicationMessages\") ||", Expect: "O12.5"},
	)
	// ---- C16
	addVariants(
		Variant{Name: "ACL appended before translation", Property: "C16", File: cc,
			Old: "\tvar translators []interceptor.Translator\n", New: "\tif c.aclPolicy != nil {\n\t\tearly := interceptor.NewAccessControlInterceptor(c.loggers.Get(LogInterceptor), c.aclPolicy.AllowedMethods.AdminService, c.aclPolicy.AllowedNamespaces)\n\t\tunaryInterceptors = append(unaryInterceptors, early.Intercept)\n\t}\n\tvar translators []interceptor.Translator\n", Expect: "O16.3"},
		Variant{Name: "forward when the visitor errs", Property: "C16", File: acl,
			Old: "\t\tif !allowed || err != nil {", New: "\t\tif !allowed && err == nil {", Expect: "O16.2"},
		Variant{Name: "namespace test skipped for admin service", Property: "C16", File: acl,
			Old: "\t\t(strings.HasPrefix(info.FullMethod, api.WorkflowServicePrefix) || strings.HasPrefix(info.FullMethod, api.AdminServicePrefix)) {", New: "\t\tstrings.HasPrefix(info.FullMethod, api.WorkflowServicePrefix) {", Expect: "O16.2"},
		Variant{Name: "ListNamespaces keeps every element", Property: "C16", File: wfs,
			Old: "\t\t\tif s.namespaceAccess.IsAllowed(ns.NamespaceInfo.Name) {\n\t\t\t\tnewNamespaceList = append(newNamespaceList, ns)\n\t\t\t}", New: "\t\t\tif s.namespaceAccess.IsAllowed(ns.NamespaceInfo.Name) || ns.IsGlobalNamespace {\n\t\t\t\tnewNamespaceList = append(newNamespaceList, ns)\n\t\t\t}", Expect: "O16.5"},
		Variant{Name: "matcher reports allowed names as disallowed=false always", Property: "C16", File: acl,
			Old: "\t\t\tnotAllowed = !access.IsAllowed(name)", New: "\t\t\tnotAllowed = !access.IsAllowed(name) && name != \"\"", Expect: "O16.2"},
		Variant{Name: "skip-list entry with a namespace (C16 view)", Property: "C16", File: refl,
			Old: "\t\tenums.EVENT_TYPE_TIMER_STARTED:                       {},\n", New: "\t\tenums.EVENT_TYPE_TIMER_STARTED:                       {},\n\t\tenums.EVENT_TYPE_SIGNAL_EXTERNAL_WORKFLOW_EXECUTION_INITIATED: {},\n", Expect: "O16.1c"},
	)
	// ---- C15
	adm := "proxy/adminservice.go"
	pol := "auth/policy.go"
	addVariants(
		Variant{Name: "remote-facing configuration built without aclPolicy", Property: "C15", File: cc,
			Old: "\t\taclPolicy:         connConfig.ACLPolicy,\n", New: "", Expect: "O15.1"},
		Variant{Name: "mux branch rebuilds the configuration without the policy", Property: "C15", File: cc,
			Old: "\t\tgrpcServer, err := buildProxyServer(c, encryption.TLSConfig{}, observer.ReportStreamValue, lifetime)", New: "\t\tc.aclPolicy = nil\n\t\tgrpcServer, err := buildProxyServer(c, encryption.TLSConfig{}, observer.ReportStreamValue, lifetime)", Expect: "O15.1"},
		Variant{Name: "stream interceptor of the ACL not installed", Property: "C15", File: cc,
			Old: "\t\tstreamInterceptors = append(streamInterceptors, aclInterceptor.StreamIntercept)\n", New: "", Expect: "O15.2"},
		Variant{Name: "allow-lists swapped in the constructor", Property: "C15", File: acl,
			Old: "\tadminServiceAccess = auth.NewAccesControl(adminServiceAllowedMethods)\n\tnamespaceAccess = auth.NewAccesControl(allowedNamespaces)", New: "\tadminServiceAccess = auth.NewAccesControl(allowedNamespaces)\n\tnamespaceAccess = auth.NewAccesControl(adminServiceAllowedMethods)", Expect: "O15.2"},
		Variant{Name: "DeleteWorkflowExecution forwards to another client method", Property: "C15", File: adm,
			Old: "\treturn s.adminClient.DeleteWorkflowExecution(ctx, in0)", New: "\t_, _ = s.adminClient.DescribeMutableState(ctx, nil)\n\treturn s.adminClient.DeleteWorkflowExecution(ctx, in0)", Expect: "O15.5"},
		Variant{Name: "misspelt deny-list entry", Property: "C15", File: pol,
			Old: "\t\t\"RegisterNamespace\",", New: "\t\t\"RegisterNamespaces\",", Expect: "O15.6"},
		Variant{Name: "stream interceptor only logs a disallowed method", Property: "C15", File: acl,
			Old: "\t\tif !i.adminServiceAccess.IsAllowed(methodName) {\n\t\t\treturn status.Errorf(codes.PermissionDenied, \"Calling method %s is not allowed.\", methodName)\n\t\t}\n\t}\n\n\treturn handler(service, serverStream)", New: "\t\tif !i.adminServiceAccess.IsAllowed(methodName) {\n\t\t\ti.logger.Warn(\"not allowed\")\n\t\t}\n\t}\n\n\treturn handler(service, serverStream)", Expect: "O15.3"},
		Variant{Name: "admin allow-list consulted with the full method name", Property: "C15", File: acl,
			Old: "\tif i.adminServiceAccess != nil && strings.HasPrefix(info.FullMethod, api.AdminServicePrefix) {\n\t\tmethodName := api.MethodName(info.FullMethod)\n\t\tif !i.adminServiceAccess.IsAllowed(methodName) {\n\t\t\treturn nil,", New: "\tif i.adminServiceAccess != nil && strings.HasPrefix(info.FullMethod, api.AdminServicePrefix) {\n\t\tmethodName := info.FullMethod\n\t\tif !i.adminServiceAccess.IsAllowed(methodName) {\n\t\t\treturn nil,", Expect: "O15.3"},
		Variant{Name: "deny-list only enforced when an admin allow-list exists", Property: "C15", File: acl,
			Old: "\tif strings.HasPrefix(info.FullMethod, api.WorkflowServicePrefix) {\n\t\tmethodName := api.MethodName(info.FullMethod)\n\t\tif !auth.IsAllowedWorkflowMigrationAPIs(methodName) {", New: "\tif i.adminServiceAccess != nil && strings.HasPrefix(info.FullMethod, api.WorkflowServicePrefix) {\n\t\tmethodName := api.MethodName(info.FullMethod)\n\t\tif !auth.IsAllowedWorkflowMigrationAPIs(methodName) {", Expect: "O15.3"},
	)
	// ---- C13
	bim := "collect/bimap.go"
	ccc := "config/cluster_conn_config.go"
	trl := "interceptor/translator.go"
	addVariants(
		Variant{Name: "inbound server gets the map without Inverse()", Property: "C13", File: cc,
			Old: "\t\tnsTranslations:    nsTranslations.Inverse(),\n", New: "\t\tnsTranslations:    nsTranslations,\n", Expect: "O13.1"},
		Variant{Name: "outbound server gets the inverse map", Property: "C13", File: cc,
			Old: "\t\tnsTranslations:    nsTranslations,\n\t\tsaTranslations:    saTranslations,\n", New: "\t\tnsTranslations:    nsTranslations.Inverse(),\n\t\tsaTranslations:    saTranslations,\n", Expect: "O13.1"},
		Variant{Name: "request/response maps swapped in makeServerOptions", Property: "C13", File: cc,
			Old: "\t\t\tc.nsTranslations.AsMap(), c.nsTranslations.Inverse().AsMap()))", New: "\t\t\tc.nsTranslations.Inverse().AsMap(), c.nsTranslations.AsMap()))", Expect: "O13.1"},
		Variant{Name: "sa maps: response map not inverted", Property: "C13", File: cc,
			Old: "\t\t\tc.saTranslations.FlattenMaps(), c.saTranslations.Inverse().FlattenMaps()))", New: "\t\t\tc.saTranslations.FlattenMaps(), c.saTranslations.FlattenMaps()))", Expect: "O13.1"},
		Variant{Name: "matchers swapped in the translator constructor", Property: "C13", File: trl,
			Old: "\t\tmatchReq:    createStringMatcher(reqMap),\n\t\tmatchResp:   createStringMatcher(respMap),", New: "\t\tmatchReq:    createStringMatcher(respMap),\n\t\tmatchResp:   createStringMatcher(reqMap),", Expect: "O13.1"},
		Variant{Name: "pairs yielded as (remote, local)", Property: "C13", File: ccc,
			Old: "\t\t\tif !yield(mapping.Local, mapping.Remote) {", New: "\t\t\tif !yield(mapping.Remote, mapping.Local) {", Expect: "O13.1"},
		Variant{Name: "prefix matching in the string matcher", Property: "C13", File: trl,
			Old: "\t\tnewName, ok := mapping[name]\n\t\treturn newName, ok", New: "\t\tnewName, ok := mapping[name]\n\t\tif !ok {\n\t\t\tfor k, v := range mapping {\n\t\t\t\tif len(name) > len(k) && name[:len(k)] == k {\n\t\t\t\t\treturn v + name[len(k):], true\n\t\t\t\t}\n\t\t\t}\n\t\t}\n\t\treturn newName, ok", Expect: "O13.2"},
		Variant{Name: "unconditional assignment of namespace strings", Property: "C13", File: refl,
			Old: "\t\t\tnewName, ok := match(name)\n\t\t\tif !ok {\n\t\t\t\treturn visit.Continue, nil\n\t\t\t}\n\t\t\tif name != newName {", New: "\t\t\tnewName, ok := match(name)\n\t\t\tif name != newName {", Expect: "O13.3"},
		Variant{Name: "blob always re-serialised", Property: "C13", File: refl,
			Old: "\tif matched || changed {\n\t\tblob, err = serializer.SerializeEvents(events)\n\t}", New: "\tblob, err = serializer.SerializeEvents(events)", Expect: "O13.3"},
		Variant{Name: "extra write into a visited message", Property: "C13", File: refl,
			Old: "\t\t\tif info.Name != newName {\n\t\t\t\tinfo.Name = newName\n\t\t\t}", New: "\t\t\tif info.Name != newName {\n\t\t\t\tinfo.Name = newName\n\t\t\t\tinfo.Description = \"\"\n\t\t\t}", Expect: "O13.3"},
		Variant{Name: "duplicate-value test dropped from the bimap", Property: "C13", File: bim,
			Old: "\t\tif existing, ok := backward.contents[val]; ok {\n\t\t\t// Can't get the existing value without iterating the backward map! Rely on the forward map\n\t\t\treturn nil, ConflictError[V]{true, val, forward.contents[existing]}\n\t\t}\n", New: "", Expect: "O13.4"},
		Variant{Name: "bimap error ignored in NewClusterConnection", Property: "C13", File: cc,
			Old: "\tnsTranslations, err := connConfig.NamespaceTranslation.AsLocalToRemoteBiMap()\n\tif err != nil {\n\t\treturn nil, err\n\t}", New: "\tnsTranslations, err := connConfig.NamespaceTranslation.AsLocalToRemoteBiMap()\n\tif err != nil {\n\t\tcc.loggers.Get(LogClusterConnection).Warn(\"bad mapping\")\n\t}", Expect: "O13.4"},
		Variant{Name: "bypass header no longer bypasses", Property: "C13", File: tri,
			Old: "\tif common.IsRequestTranslationDisabled(ctx) || len(i.translators) == 0 ||", New: "\tif len(i.translators) == 0 ||", Expect: "O13.5"},
	)
	// ---- C14
	sat := "interceptor/search_attribute_translator.go"
	addVariants(
		Variant{Name: "bare-map container form no longer handled", Property: "C14", File: refl,
			Old: "\t\t\tcase map[string]*common.Payload:\n\t\t\t\tattrs, changed = translateIndexedFields(attrs, match)\n\t\t\t\tif changed {\n\t\t\t\t\tif err := visit.Assign(vwp, reflect.ValueOf(attrs)); err != nil {\n\t\t\t\t\t\treturn visit.Stop, err\n\t\t\t\t\t}\n\t\t\t\t}\n", New: "", Expect: "O14.1"},
		Variant{Name: "method filter tests the admin prefix", Property: "C14", File: sat,
			Old: "\t\t\treturn !strings.HasPrefix(method, api.WorkflowServicePrefix)", New: "\t\t\treturn !strings.HasPrefix(method, api.AdminServicePrefix)", Expect: "O14.4"},
		Variant{Name: "renamed entry gets a fresh payload", Property: "C14", File: refl,
			Old: "\t\t\tnewIndexed[newKey] = value\n", New: "\t\t\tnewIndexed[newKey] = &common.Payload{Data: value.GetData()}\n", Expect: "O14.3"},
		Variant{Name: "unmapped keys dropped", Property: "C14", File: refl,
			Old: "\t\t} else {\n\t\t\tnewIndexed[key] = value\n\t\t}\n\t}\n\treturn newIndexed, anyMatched", New: "\t\t}\n\t}\n\treturn newIndexed, anyMatched", Expect: "O14.3"},
		Variant{Name: "inbound search-attribute maps not inverted", Property: "C14", File: cc,
			Old: "\t\tsaTranslations:    saTranslations.Inverse(),\n", New: "\t\tsaTranslations:    saTranslations,\n", Expect: "O14.5"},
		Variant{Name: "interceptor ignores MatchMethod for responses", Property: "C14", File: tri,
			Old: "\tfor _, tr := range i.translators {\n\t\tif tr.MatchMethod(info.FullMethod) {\n\t\t\tstart := time.Now()\n\t\t\tchanged, trErr := tr.TranslateResponse(resp)", New: "\tfor _, tr := range i.translators {\n\t\tif tr.MatchMethod(info.FullMethod) || resp != nil {\n\t\t\tstart := time.Now()\n\t\t\tchanged, trErr := tr.TranslateResponse(resp)", Expect: "O14.4"},
		Variant{Name: "SearchAttributes dropped from the name table", Property: "C14", File: refl,
			Old: "\t\t\"SearchAttributes\": true,\n", New: "\t\t\"IndexedSearchAttributes\": true,\n", Expect: "O14.1"},
	)
	// ---- C18
	gen := "proto/compat/repair_utf8_gen.go"
	rep := "proto/compat/repair_utf8.go"
	adc := "proto/compat/admin_conversion_gen.go"
	addVariants(
		Variant{Name: "oneof case deleted from the generated visitor", Property: "C18", File: gen,
			Old: "\tcase *apihistory.HistoryEvent:\n\t\tswitch oneof := root.GetAttributes().(type) {\n\t\tcase *apihistory.HistoryEvent_ActivityTaskFailedEventAttributes:\n\t\t\tx1 := oneof.ActivityTaskFailedEventAttributes\n\t\t\ty1 := x1.GetFailure()\n\t\t\tif changed, err := repairInvalidUTF8InFailure(y1); err != nil || changed {\n\t\t\t\tret = ret || changed\n\t\t\t\tif err != nil {\n\t\t\t\t\tretErr = err\n\t\t\t\t}\n\t\t\t}\n", New: "\tcase *apihistory.HistoryEvent:\n\t\tswitch oneof := root.GetAttributes().(type) {\n", Expect: "O18.1"},
		Variant{Name: "conversion table maps a response to the request's legacy type", Property: "C18", File: adc,
			Old: "\tcase *svc.DescribeMutableStateResponse:\n\t\treturn &svc122.DescribeMutableStateResponse{}, true", New: "\tcase *svc.DescribeMutableStateResponse:\n\t\treturn &svc122.DescribeMutableStateRequest{}, true", Expect: "O18.3"},
		Variant{Name: "failure chain no longer followed", Property: "C18", File: rep,
			Old: "\t\tfailure = failure.GetCause()\n", New: "\t\tfailure = nil\n", Expect: "O18.4"},
		Variant{Name: "depth overflow silently accepted", Property: "C18", File: rep,
			Old: "\tif failure != nil {\n\t\treturn changed, fmt.Errorf(\"reached maximum failure chain depth\")\n\t}\n", New: "", Expect: "O18.4"},
		Variant{Name: "repair result dropped in the generated visitor", Property: "C18", File: gen,
			Old: "\tcase *apifailure.Failure:\n\t\tif changed, err := repairInvalidUTF8InFailure(root); err != nil || changed {\n\t\t\tret = ret || changed\n", New: "\tcase *apifailure.Failure:\n\t\tif changed, err := repairInvalidUTF8InFailure(root); err != nil || changed {\n\t\t\tret = ret || false\n", Expect: "O18.2"},
		Variant{Name: "repair applied to a fresh value instead of the decoded one", Property: "C18", File: rep,
			Old: "\tchanged, err := RepairInvalidUTF8(msg122)\n", New: "\tfresh, _ := adminConvertTo122(v)\n\tchanged, err := RepairInvalidUTF8(fresh)\n", Expect: "O18.5"},
	)
	// ---- C17
	cod := "proto/compat/codec.go"
	gru := "transport/grpcutil/grpc.go"
	addVariants(
		Variant{Name: "nil returned when the repair failed", Property: "C17", File: cod,
			Old: "\t\t\tmetrics.TranslationErrors.WithLabelValues(metrics.UTF8RepairTranslationKind, msgType).Inc()\n\t\t} else {", New: "\t\t\tmetrics.TranslationErrors.WithLabelValues(metrics.UTF8RepairTranslationKind, msgType).Inc()\n\t\t\treturn nil\n\t\t} else {", Expect: "O17.1"},
		Variant{Name: "repair attempted on every decode error", Property: "C17", File: cod,
			Old: "\tif common.IsInvalidUTF8Error(err) {\n\t\tstart := time.Now()", New: "\tif err != nil {\n\t\tstart := time.Now()", Expect: "O17.1"},
		Variant{Name: "repair also rewrites Failure.Source", Property: "C17", File: rep,
			Old: "\t\t\tfailure.Message = strings.ToValidUTF8(failure.Message, replacementCharacter)\n", New: "\t\t\tfailure.Message = strings.ToValidUTF8(failure.Message, replacementCharacter)\n\t\t\tfailure.Source = strings.ToValidUTF8(failure.Source, replacementCharacter)\n", Expect: "O17.3"},
		Variant{Name: "nothing-repaired accepted by the codec path", Property: "C17", File: rep,
			Old: "\tif !changed {\n\t\treturn fmt.Errorf(\"nothing was repaired in type %T\", msg122)\n\t}\n", New: "\t_ = changed\n", Expect: "O17.2"},
		Variant{Name: "nothing-repaired accepted by the blob path", Property: "C17", File: refl,
			Old: "\t\t} else {\n\t\t\t// Nothing was repaired, so the blob still cannot be decoded. Report it rather than\n\t\t\t// treating an undecoded blob as examined.\n\t\t\treturn blob, matched, changed, fmt.Errorf(\"invalid utf-8 in history event blob could not be repaired: nothing was repaired\")\n\t\t}\n", New: "\t\t}\n", Expect: "O17.4"},
		Variant{Name: "dial options no longer force the codec", Property: "C17", File: gru,
			Old: "\t\t\tgrpc.ForceCodecV2(encoding.GetCodecV2(compat.CodecName)),\n", New: "\t\t\tgrpc.ForceCodecV2(encoding.GetCodecV2(compat.CodecName[:0] + \"proto\")),\n", Expect: "O17.5"},
		Variant{Name: "re-unmarshal error swallowed", Property: "C17", File: rep,
			Old: "\tif err := vMarshaler.Unmarshal(repaired); err != nil {\n\t\treturn fmt.Errorf(\"failed to re-unmarshal message %T after repair: %w\", v, err)\n\t}", New: "\t_ = vMarshaler.Unmarshal(repaired)", Expect: "O17.2"},
	)
	// ---- C19
	tlsf := "encryption/tls.go"
	rcv := "transport/mux/receiver.go"
	addVariants(
		Variant{Name: "RequireAnyClientCert (certificate required but never verified)", Property: "C19", File: tlsf,
			Old: "tlsConfig.ClientAuth = tls.RequireAndVerifyClientCert", New: "tlsConfig.ClientAuth = tls.RequireAnyClientCert", Expect: "O19.1"},
		Variant{Name: "VerifyClientCertIfGiven (no certificate admitted)", Property: "C19", File: tlsf,
			Old: "tlsConfig.ClientAuth = tls.RequireAndVerifyClientCert", New: "tlsConfig.ClientAuth = tls.VerifyClientCertIfGiven", Expect: "O19.1"},
		Variant{Name: "client always skips verification", Property: "C19", File: tlsf,
			Old: "\ttlsConfig.InsecureSkipVerify = clientConfig.SkipCAVerification\n", New: "\ttlsConfig.InsecureSkipVerify = clientConfig.SkipCAVerification || clientConfig.RemoteCAPath == \"\"\n", Expect: "O19.2"},
		Variant{Name: "GetConfigForClient substitutes a config without ClientCAs", Property: "C19", File: tlsf,
			Old: "\t\t\t\t\ttag.Error(err), tag.NewStringTag(\"tlsConfig\", fmt.Sprintf(\"%+v\", tlsConfig)))\n\t\t\t}\n\t\t}\n\t\treturn nil, nil", New: "\t\t\t\t\ttag.Error(err), tag.NewStringTag(\"tlsConfig\", fmt.Sprintf(\"%+v\", tlsConfig)))\n\t\t\t\tfallback := tlsConfig.Clone()\n\t\t\t\tfallback.ClientAuth = tls.NoClientCert\n\t\t\t\treturn fallback, nil\n\t\t\t}\n\t\t}\n\t\treturn nil, nil", Expect: "O19.1"},
		Variant{Name: "CA load error ignored on the server side", Property: "C19", File: tlsf,
			Old: "\t\ttlsConfig.ClientCAs, err = fetchCACert(serverConfig.RemoteCAPath)\n\t\tif err != nil {\n\t\t\treturn nil, fmt.Errorf(\"failed to read CACert from %s: %w\", serverConfig.RemoteCAPath, err)\n\t\t}", New: "\t\ttlsConfig.ClientCAs, err = fetchCACert(serverConfig.RemoteCAPath)\n\t\tif err != nil {\n\t\t\tlogger.Warn(\"no CA\")\n\t\t\terr = nil\n\t\t}", Expect: "O19.1"},
		Variant{Name: "bundle without a CA certificate accepted", Property: "C19", File: tlsf,
			Old: "\tif err := validateHasCA(certs, pathOrUrl); err != nil {\n\t\treturn nil, err\n\t}\n", New: "\t_ = validateHasCA(certs, pathOrUrl)\n", Expect: "O19.3"},
		Variant{Name: "second tls.Config built in the mux receiver", Property: "C19", File: rcv,
			Old: "\t\ttlsWrapper = func(conn net.Conn) net.Conn { return tls.Server(conn, tlsConfig) }", New: "\t\tweak := &tls.Config{Certificates: tlsConfig.Certificates}\n\t\ttlsWrapper = func(conn net.Conn) net.Conn { return tls.Server(conn, weak) }", Expect: "O19.4"},
		Variant{Name: "mux receiver skips wrapping when no CA is configured", Property: "C19", File: rcv,
			Old: "\tif tlsCfg := setting.TLSConfig; tlsCfg.IsEnabled() {\n\t\ttlsConfig, err := encryption.GetServerTLSConfig(tlsCfg, logger)", New: "\tif tlsCfg := setting.TLSConfig; tlsCfg.IsEnabled() && tlsCfg.RemoteCAPath != \"\" {\n\t\ttlsConfig, err := encryption.GetServerTLSConfig(tlsCfg, logger)", Expect: "O19.4"},
		Variant{Name: "server name not pinned", Property: "C19", File: tlsf,
			Old: "\t\ttlsConfig.ServerName = clientConfig.CAServerName\n", New: "", Expect: "O19.2"},
	)
	// ---- C20
	obs := "proxy/replication_stream_observer.go"
	trk := "proxy/stream_tracker.go"
	addVariants(
		Variant{Name: "unlock no longer deferred in ReportStreamValue", Property: "C20", File: obs,
			Old: "\tdefer s.streamGrowLock.Unlock()\n", New: "", Expect: "O20.4"},
		Variant{Name: "new size computed in int32 again", Property: "C20", File: obs,
			Old: "\t\tnewSize := min((int(idx)+1)*9, math.MaxInt32) / 8", New: "\t\tnewSize := min(int((idx+1)*9), math.MaxInt32) / 8", Expect: "O20.5"},
		Variant{Name: "deferred -1 report dropped", Property: "C20", File: adm,
			Old: "\tdefer s.reportStreamValue(sourceClusterShardID.ShardID, -1)\n", New: "", Expect: "O20.3"},
		Variant{Name: "-1 report for the other shard", Property: "C20", File: adm,
			Old: "\tdefer s.reportStreamValue(sourceClusterShardID.ShardID, -1)\n", New: "\tdefer s.reportStreamValue(targetClusterShardID.ShardID, -1)\n", Expect: "O20.3"},
		Variant{Name: "CapturePanic armed after the metadata decode", Property: "C20", File: adm,
			Old: "\tdefer log.CapturePanic(s.loggers.Get(logging.ReplicationStreams), &retError)\n\n\ttargetMetadata, ok := metadata.FromIncomingContext(streamServer.Context())\n\tif !ok {\n\t\treturn serviceerror.NewInvalidArgument(\"missing cluster & shard ID metadata\")\n\t}", New: "\ttargetMetadata, ok := metadata.FromIncomingContext(streamServer.Context())\n\tif !ok {\n\t\treturn serviceerror.NewInvalidArgument(\"missing cluster & shard ID metadata\")\n\t}\n\tdefer log.CapturePanic(s.loggers.Get(logging.ReplicationStreams), &retError)\n", Expect: "O20.1"},
		Variant{Name: "decode error ignored", Property: "C20", File: adm,
			Old: "\tif err != nil {\n\t\treturn err\n\t}\n\n\tlogger := log.With(s.loggers.Get(logging.ReplicationStreams),", New: "\t_ = err\n\n\tlogger := log.With(s.loggers.Get(logging.ReplicationStreams),", Expect: "O20.2"},
		Variant{Name: "tracker update with a non-deferred lock around formatting", Property: "C20", File: trk,
			Old: "func (st *StreamTracker) UnregisterStream(id string) {\n\tst.mu.Lock()\n\tdefer st.mu.Unlock()\n\n\tdelete(st.streams, id)\n}", New: "func (st *StreamTracker) UnregisterStream(id string) {\n\tst.mu.Lock()\n\t_ = fmt.Sprintf(\"%v\", st.streams[id])\n\tdelete(st.streams, id)\n\tst.mu.Unlock()\n}", Expect: "O20.4"},
		Variant{Name: "early return with the tracker lock held", Property: "C20", File: trk,
			Old: "func (st *StreamTracker) GetStreamCount() int {\n\tst.mu.RLock()\n\tdefer st.mu.RUnlock()\n\n\treturn len(st.streams)\n}", New: "func (st *StreamTracker) GetStreamCount() int {\n\tst.mu.RLock()\n\tif len(st.streams) == 0 {\n\t\treturn 0\n\t}\n\tn := len(st.streams)\n\tst.mu.RUnlock()\n\treturn n\n}", Expect: "O20.4"},
	)
	// ---- C10
	prov := "transport/mux/provider.go"
	mmm := "transport/mux/multi_mux_manager.go"
	mses := "transport/mux/session/managed_mux_session.go"
	addVariants(
		Variant{Name: "ping-failure branch continues without Release", Property: "C10", File: prov,
			Old: "\t\t\t\t\t_ = session.Close()\n\t\t\t\t\t_ = conn.Close()\n\t\t\t\t\tm.muxPermits.Release(1)\n\t\t\t\t\tcontinue connect", New: "\t\t\t\t\t_ = session.Close()\n\t\t\t\t\t_ = conn.Close()\n\t\t\t\t\tcontinue connect", Expect: "O10.1"},
		Variant{Name: "extra AllowMoreConns in unregisterMux", Property: "C10", File: mmm,
			Old: "\tdelete(m.muxes, id)\n\tm.notifyChange()\n\tm.muxesLock.Unlock()", New: "\tdelete(m.muxes, id)\n\tm.notifyChange()\n\tm.muxesLock.Unlock()\n\tm.muxProvider.AllowMoreConns(1)", Expect: "O10.3"},
		Variant{Name: "conn.Close dropped on ping failure", Property: "C10", File: prov,
			Old: "\t\t\t\t\t// Make sure session & conn close on error\n\t\t\t\t\t_ = session.Close()\n\t\t\t\t\t_ = conn.Close()\n", New: "\t\t\t\t\t// Make sure session & conn close on error\n\t\t\t\t\t_ = session.Close()\n", Expect: "O10.4"},
		Variant{Name: "callback not invoked by waitAndCleanup", Property: "C10", File: mses,
			Old: "\ts.state.Store(&MuxSessionInfo{State: Closed, Err: s.state.Load().Err})\n\tafterShutdown()\n", New: "\ts.state.Store(&MuxSessionInfo{State: Closed, Err: s.state.Load().Err})\n\tif s.state.Load().Err == nil {\n\t\tafterShutdown()\n\t}\n", Expect: "O10.2"},
		Variant{Name: "release on connect failure and again after logging", Property: "C10", File: prov,
			Old: "\t\t\t\t\tm.muxPermits.Release(1)\n\t\t\t\t\tm.logger.Info(\"Couldn't connect to mux TCP destination\", tag.Error(err))\n", New: "\t\t\t\t\tm.muxPermits.Release(1)\n\t\t\t\t\tm.logger.Info(\"Couldn't connect to mux TCP destination\", tag.Error(err))\n\t\t\t\t\tm.muxPermits.Release(1)\n", Expect: "O10.1"},
		Variant{Name: "AddConnection drops a late session", Property: "C10", File: mmm,
			Old: "\t\t_ = yamuxSession.Close()\n\t\t_ = conn.Close()\n\t\treturn\n", New: "\t\treturn\n", Expect: "O10.4"},
		Variant{Name: "sessions closed before the provider stopped", Property: "C10", File: mmm,
			Old: "\t// This Close() blocks until the provider is closed\n\tm.muxProvider.WaitForClose()\n", New: "", Expect: "O10.5"},
		Variant{Name: "session not stored in the table when a listener is absent", Property: "C10", File: mmm,
			Old: "\tm.muxes[newId] = session.NewManagedMuxSession(", New: "\t_ = session.NewManagedMuxSession(", Expect: "O10.4"},
		Variant{Name: "session cleanup goroutine only with builders", Property: "C10", File: mses,
			Old: "\tgo waitAndCleanup(s, afterShutdown)\n", New: "\tif len(builders) > 0 {\n\t\tgo waitAndCleanup(s, afterShutdown)\n\t}\n", Expect: "O10.2"},
		Variant{Name: "receiver drops a connection accepted at shutdown", Property: "C10", File: rcv,
			Old: "\t\tif conn != nil {\n\t\t\t// Accepted just as we shut down: nobody will use this connection\n\t\t\t_ = conn.Close()\n\t\t}\n", New: "", Expect: "O10.4"},
	)
	// ---- C11
	mcc := "transport/grpcutil/multi_client_conn.go"
	gmm := "transport/mux/grpc_mux_manager.go"
	addVariants(
		Variant{Name: "delete from muxes without notifyChange", Property: "C11", File: mmm,
			Old: "\tdelete(m.muxes, id)\n\tm.notifyChange()\n", New: "\tdelete(m.muxes, id)\n", Expect: "O11.1"},
		Variant{Name: "notify after the lock was released", Property: "C11", File: mmm,
			Old: "\tdelete(m.muxes, id)\n\tm.notifyChange()\n\tm.muxesLock.Unlock()", New: "\tdelete(m.muxes, id)\n\tm.muxesLock.Unlock()\n\tm.notifyChange()", Expect: "O11.1"},
		Variant{Name: "client keeps the manager's own map", Property: "C11", File: mcc,
			Old: "// OnConnectionListUpdate satisfies mux.OnConnectionListUpdate\nfunc (mcc *MultiClientConn) OnConnectionListUpdate(muxes map[string]session.ManagedMuxSession) {\n", New: "var lastMuxesSeen map[string]session.ManagedMuxSession\n\n// OnConnectionListUpdate satisfies mux.OnConnectionListUpdate\nfunc (mcc *MultiClientConn) OnConnectionListUpdate(muxes map[string]session.ManagedMuxSession) {\n\tlastMuxesSeen = muxes\n", Expect: "O11.2"},
		Variant{Name: "resolver updated outside the lock", Property: "C11", File: mcc,
			Old: "\tmcc.connMapLock.Lock()\n\tdefer mcc.connMapLock.Unlock()\n\tmcc.connMap = conns\n\tmcc.resolver.UpdateState(mcc.deriveStateFromConns())", New: "\tmcc.connMapLock.Lock()\n\tmcc.connMap = conns\n\tstate := mcc.deriveStateFromConns()\n\tmcc.connMapLock.Unlock()\n\tmcc.resolver.UpdateState(state)", Expect: "O11.3"},
		Variant{Name: "one session's opener used for every key", Property: "C11", File: mcc,
			Old: "\tfor k, v := range muxes {\n\t\tconnMap[k] = v.Open\n\t}", New: "\tvar first session.ManagedMuxSession\n\tfor k, v := range muxes {\n\t\tif first == nil {\n\t\t\tfirst = v\n\t\t}\n\t\tconnMap[k] = first.Open\n\t}", Expect: "O11.2"},
		Variant{Name: "listener not registered with the mux manager", Property: "C11", File: gmm,
			Old: "\t\t[]OnConnectionListUpdate{listener.OnConnectionListUpdate},", New: "\t\t[]OnConnectionListUpdate{},", Expect: "O11.4"},
		Variant{Name: "servers manage each other's client", Property: "C11", File: cc,
			Old: "\t\tmanagedClient:     cc.outboundClient,\n", New: "\t\tmanagedClient:     cc.inboundClient,\n", Expect: "O11.4"},
		Variant{Name: "missing address dials the first session", Property: "C11", File: mcc,
			Old: "\t\treturn nil, fmt.Errorf(\"connection key %s didn't match a connection\", addr)", New: "\t\tmcc.connMapLock.RLock()\n\t\tdefer mcc.connMapLock.RUnlock()\n\t\tfor _, fn := range mcc.connMap {\n\t\t\treturn fn()\n\t\t}\n\t\treturn nil, nil", Expect: "O11.3"},
	)
	// ---- C08
	shm := "proxy/shard_manager.go"
	pst := "proxy/proxy_streams.go"
	ipr := "proxy/intra_proxy_router.go"
	addVariants(
		Variant{Name: "RemoveRemoteSendChan made unconditional", Property: "C08", File: shm,
			Old: "\tif currentChan, exists := sm.remoteSendChannels[shardID]; exists && currentChan == expectedChan {\n\t\tdelete(sm.remoteSendChannels, shardID)", New: "\tif _, exists := sm.remoteSendChannels[shardID]; exists {\n\t\tdelete(sm.remoteSendChannels, shardID)", Expect: "O8.1", Contains: "RemoveRemoteSendChan"},
		Variant{Name: "ack channel compared outside the critical section", Property: "C08", File: shm,
			Old: "\tsm.localAckChannelsMu.Lock()\n\tdefer sm.localAckChannelsMu.Unlock()\n\tif currentChan, exists := sm.localAckChannels[shardID]; exists && currentChan == expectedChan {\n\t\tdelete(sm.localAckChannels, shardID)\n\t} else {", New: "\tsm.localAckChannelsMu.RLock()\n\tcurrentChan, exists := sm.localAckChannels[shardID]\n\tsm.localAckChannelsMu.RUnlock()\n\tif exists && currentChan == expectedChan {\n\t\tsm.localAckChannelsMu.Lock()\n\t\tdelete(sm.localAckChannels, shardID)\n\t\tsm.localAckChannelsMu.Unlock()\n\t} else {", Expect: "O8.1", Contains: "RemoveLocalAckChan"},
		Variant{Name: "recover removed from DeliverMessagesToShardOwner", Property: "C08", File: shm,
			Old: "\t\t\tdefer func() {\n\t\t\t\tif panicErr := recover(); panicErr != nil {\n\t\t\t\t\tlogger.Warn(\"Failed to deliver messages to local shard owner (channel closed)\")\n\t\t\t\t}\n\t\t\t}()\n", New: "", Expect: "O8.2"},
		Variant{Name: "receiver registers before terminating its predecessor", Property: "C08", File: pst,
			Old: "\t// Terminate any previous local receiver for this shard\n\tif r.shardManager != nil {\n\t\tr.shardManager.TerminatePreviousLocalReceiver(r.sourceShardID, r.logger)\n\t}\n", New: "", Expect: "O8.3"},
		Variant{Name: "shard ownership announced before the channel is registered", Property: "C08", File: pst,
			Old: "\ts.shardManager.SetRemoteSendChan(s.targetShardID, s.sendMsgChan)\n\tdefer s.shardManager.RemoveRemoteSendChan(s.targetShardID, s.sendMsgChan)\n\n\tregisteredAt := s.shardManager.RegisterShard(s.targetShardID)\n\tdefer s.shardManager.UnregisterShard(s.targetShardID, registeredAt)\n", New: "\tregisteredAt := s.shardManager.RegisterShard(s.targetShardID)\n\tdefer s.shardManager.UnregisterShard(s.targetShardID, registeredAt)\n\n\ts.shardManager.SetRemoteSendChan(s.targetShardID, s.sendMsgChan)\n\tdefer s.shardManager.RemoveRemoteSendChan(s.targetShardID, s.sendMsgChan)\n", Expect: "O8.3"},
		Variant{Name: "sender registration not cleaned up", Property: "C08", File: ipr,
			Old: "\tdefer s.shardManager.GetIntraProxyManager().UnregisterSender(s.peerNodeName, s.targetShardID, s.sourceShardID, s)\n", New: "", Expect: "O8.4"},
		Variant{Name: "UnregisterActiveReceiver unconditional again", Property: "C08", File: shm,
			Old: "\tif current, exists := sm.activeReceivers[sourceShardID]; exists && current == receiver {\n\t\tdelete(sm.activeReceivers, sourceShardID)\n\t}", New: "\tdelete(sm.activeReceivers, sourceShardID)", Expect: "O8.1", Contains: "UnregisterActiveReceiver"},
		Variant{Name: "redundant unguarded shard delete after unlock", Property: "C08", File: shm,
			Old: "\t\tsm.mutex.Unlock()\n\n\t\tsm.broadcastShardChange(\"unregister\", clientShardID)", New: "\t\tsm.mutex.Unlock()\n\n\t\tsm.mutex.Lock()\n\t\tdelete(sm.localShards, key)\n\t\tsm.mutex.Unlock()\n\t\tsm.broadcastShardChange(\"unregister\", clientShardID)", Expect: "O8.1", Contains: "UnregisterShard"},
		Variant{Name: "watermark replay without recover", Property: "C08", File: pst,
			Old: "\t\t// The owner closes this channel before it is unregistered: guard the send with recover\n\t\tfunc() {\n\t\t\tdefer func() {\n\t\t\t\tif panicErr := recover(); panicErr != nil {\n\t\t\t\t\tr.logger.Warn(\"Failed to send pending watermark to local shard (channel closed)\",\n\t\t\t\t\t\ttag.NewStringTag(\"targetShard\", ClusterShardIDtoString(targetShardID)))\n\t\t\t\t}\n\t\t\t}()\n", New: "\t\tfunc() {\n", Expect: "O8.2"},
	)
	addVariants(
		Variant{Name: "guarded hand-over returns its result instead of setting a captured flag", Property: "C02", File: shm, Benign: true,
			Old: "\t\tdelivered := false\n\t\tfunc() {\n\t\t\tdefer func() {\n\t\t\t\tif panicErr := recover(); panicErr != nil {\n\t\t\t\t\tlogger.Warn(\"Failed to deliver messages to local shard owner (channel closed)\")\n\t\t\t\t}\n\t\t\t}()\n\t\t\tselect {\n\t\t\tcase ch <- *routedMsg:\n\t\t\t\tlogger.Debug(\"Delivered messages to local shard owner\")\n\t\t\t\tdelivered = true\n\t\t\tcase <-shutdownChan.Channel():\n\t\t\t\t// Shutdown signal received\n\t\t\t}\n\t\t}()\n", New: "\t\tdelivered := func() (sent bool) {\n\t\t\tdefer func() {\n\t\t\t\tif panicErr := recover(); panicErr != nil {\n\t\t\t\t\tlogger.Warn(\"Failed to deliver messages to local shard owner (channel closed)\")\n\t\t\t\t}\n\t\t\t}()\n\t\t\tselect {\n\t\t\tcase ch <- *routedMsg:\n\t\t\t\tlogger.Debug(\"Delivered messages to local shard owner\")\n\t\t\t\treturn true\n\t\t\tcase <-shutdownChan.Channel():\n\t\t\t\t// Shutdown signal received\n\t\t\t}\n\t\t\treturn false\n\t\t}()\n"},
		Variant{Name: "guarded hand-over returns its result (seen from C09)", Property: "C09", File: shm, Benign: true,
			Old: "\t\tdelivered := false\n\t\tfunc() {\n\t\t\tdefer func() {\n\t\t\t\tif panicErr := recover(); panicErr != nil {\n\t\t\t\t\tlogger.Warn(\"Failed to deliver messages to local shard owner (channel closed)\")\n\t\t\t\t}\n\t\t\t}()\n\t\t\tselect {\n\t\t\tcase ch <- *routedMsg:\n\t\t\t\tlogger.Debug(\"Delivered messages to local shard owner\")\n\t\t\t\tdelivered = true\n\t\t\tcase <-shutdownChan.Channel():\n\t\t\t\t// Shutdown signal received\n\t\t\t}\n\t\t}()\n", New: "\t\tdelivered := func() (sent bool) {\n\t\t\tdefer func() {\n\t\t\t\tif panicErr := recover(); panicErr != nil {\n\t\t\t\t\tlogger.Warn(\"Failed to deliver messages to local shard owner (channel closed)\")\n\t\t\t\t}\n\t\t\t}()\n\t\t\tselect {\n\t\t\tcase ch <- *routedMsg:\n\t\t\t\tlogger.Debug(\"Delivered messages to local shard owner\")\n\t\t\t\treturn true\n\t\t\tcase <-shutdownChan.Channel():\n\t\t\t\t// Shutdown signal received\n\t\t\t}\n\t\t\treturn false\n\t\t}()\n"},
		Variant{Name: "result-form hand-over reports true from its shutdown arm", Property: "C02", File: shm,
			Old: "\t\tdelivered := false\n\t\tfunc() {\n\t\t\tdefer func() {\n\t\t\t\tif panicErr := recover(); panicErr != nil {\n\t\t\t\t\tlogger.Warn(\"Failed to deliver messages to local shard owner (channel closed)\")\n\t\t\t\t}\n\t\t\t}()\n\t\t\tselect {\n\t\t\tcase ch <- *routedMsg:\n\t\t\t\tlogger.Debug(\"Delivered messages to local shard owner\")\n\t\t\t\tdelivered = true\n\t\t\tcase <-shutdownChan.Channel():\n\t\t\t\t// Shutdown signal received\n\t\t\t}\n\t\t}()\n", New: "\t\tdelivered := func() (sent bool) {\n\t\t\tdefer func() {\n\t\t\t\tif panicErr := recover(); panicErr != nil {\n\t\t\t\t\tlogger.Warn(\"Failed to deliver messages to local shard owner (channel closed)\")\n\t\t\t\t}\n\t\t\t}()\n\t\t\tselect {\n\t\t\tcase ch <- *routedMsg:\n\t\t\t\tlogger.Debug(\"Delivered messages to local shard owner\")\n\t\t\t\treturn true\n\t\t\tcase <-shutdownChan.Channel():\n\t\t\t\treturn true\n\t\t\t}\n\t\t\treturn false\n\t\t}()\n", Expect: "O2.13"},
		Variant{Name: "result-form hand-over presets its named result, recovered panic reports true", Property: "C09", File: shm,
			Old: "\t\tdelivered := false\n\t\tfunc() {\n\t\t\tdefer func() {\n\t\t\t\tif panicErr := recover(); panicErr != nil {\n\t\t\t\t\tlogger.Warn(\"Failed to deliver messages to local shard owner (channel closed)\")\n\t\t\t\t}\n\t\t\t}()\n\t\t\tselect {\n\t\t\tcase ch <- *routedMsg:\n\t\t\t\tlogger.Debug(\"Delivered messages to local shard owner\")\n\t\t\t\tdelivered = true\n\t\t\tcase <-shutdownChan.Channel():\n\t\t\t\t// Shutdown signal received\n\t\t\t}\n\t\t}()\n", New: "\t\tdelivered := func() (sent bool) {\n\t\t\tsent = true\n\t\t\tdefer func() {\n\t\t\t\tif panicErr := recover(); panicErr != nil {\n\t\t\t\t\tlogger.Warn(\"Failed to deliver messages to local shard owner (channel closed)\")\n\t\t\t\t}\n\t\t\t}()\n\t\t\tselect {\n\t\t\tcase ch <- *routedMsg:\n\t\t\t\tlogger.Debug(\"Delivered messages to local shard owner\")\n\t\t\t\treturn true\n\t\t\tcase <-shutdownChan.Channel():\n\t\t\t\t// Shutdown signal received\n\t\t\t}\n\t\t\treturn false\n\t\t}()\n", Expect: "O9.1"},
		Variant{Name: "bounded wait: the hand-over select is left running in a goroutine", Property: "C02", File: shm,
			Old: "\t\tdelivered := false\n\t\tfunc() {\n\t\t\tdefer func() {\n\t\t\t\tif panicErr := recover(); panicErr != nil {\n\t\t\t\t\tlogger.Warn(\"Failed to deliver messages to local shard owner (channel closed)\")\n\t\t\t\t}\n\t\t\t}()\n\t\t\tselect {\n\t\t\tcase ch <- *routedMsg:\n\t\t\t\tlogger.Debug(\"Delivered messages to local shard owner\")\n\t\t\t\tdelivered = true\n\t\t\tcase <-shutdownChan.Channel():\n\t\t\t\t// Shutdown signal received\n\t\t\t}\n\t\t}()\n", New: "\t\tdelivered := false\n\t\tdone := make(chan struct{})\n\t\tgo func() {\n\t\t\tdefer close(done)\n\t\t\tdefer func() {\n\t\t\t\tif panicErr := recover(); panicErr != nil {\n\t\t\t\t\tlogger.Warn(\"Failed to deliver messages to local shard owner (channel closed)\")\n\t\t\t\t}\n\t\t\t}()\n\t\t\tselect {\n\t\t\tcase ch <- *routedMsg:\n\t\t\t\tlogger.Debug(\"Delivered messages to local shard owner\")\n\t\t\t\tdelivered = true\n\t\t\tcase <-shutdownChan.Channel():\n\t\t\t\t// Shutdown signal received\n\t\t\t}\n\t\t}()\n\t\tselect {\n\t\tcase <-done:\n\t\tcase <-time.After(time.Second):\n\t\t\treturn false\n\t\t}\n", Expect: "O2.13", Contains: "hand-over select"},
	)
	addVariants(
		Variant{Name: "terminated counter of the ack direction loses its direction label", Property: "C20", File: "proxy/admin_stream_transfer.go",
			Old: "\t\t\tf.logger.Debug(\"targetStreamServer.Recv encountered EOF\", tag.Error(err))\n\t\t\tmetrics.AdminServiceStreamTerminatedCount.WithLabelValues(append(f.metricLabelValues, \"target\")...).Inc()\n", New: "\t\t\tf.logger.Debug(\"targetStreamServer.Recv encountered EOF\", tag.Error(err))\n\t\t\tmetrics.AdminServiceStreamTerminatedCount.WithLabelValues(f.metricLabelValues...).Inc()\n", Expect: "O20.12"},
		Variant{Name: "terminated counter given one label value too many", Property: "C06", File: "proxy/admin_stream_transfer.go",
			Old: "\t\t\tf.logger.Debug(\"sourceStreamClient.Recv encountered EOF\", tag.Error(err))\n\t\t\tmetrics.AdminServiceStreamTerminatedCount.WithLabelValues(append(f.metricLabelValues, \"source\")...).Inc()\n", New: "\t\t\tf.logger.Debug(\"sourceStreamClient.Recv encountered EOF\", tag.Error(err))\n\t\t\tmetrics.AdminServiceStreamTerminatedCount.WithLabelValues(append(f.metricLabelValues, \"source\", \"eof\")...).Inc()\n", Expect: "O6.16"},
		Variant{Name: "label slice copied before the direction is appended", Property: "C20", File: "proxy/admin_stream_transfer.go", Benign: true,
			Old: "\t\t\tf.logger.Debug(\"sourceStreamClient.Recv encountered EOF\", tag.Error(err))\n\t\t\tmetrics.AdminServiceStreamTerminatedCount.WithLabelValues(append(f.metricLabelValues, \"source\")...).Inc()\n", New: "\t\t\tf.logger.Debug(\"sourceStreamClient.Recv encountered EOF\", tag.Error(err))\n\t\t\tterminated := metrics.AdminServiceStreamTerminatedCount\n\t\t\tterminated.WithLabelValues(append(append([]string{}, f.metricLabelValues...), \"source\")...).Inc()\n"},
	)
	// ---- round 10
	addVariants(
		Variant{Name: "delivery channel looked up once, before the retry loop", Property: "C08", File: "proxy/intra_proxy_router.go",
			Old: "\t\t\tsent := false\n\t\t\tlogged := false\n\t\t\tfor !sent {\n\t\t\t\tif ch, ok := r.shardManager.GetRemoteSendChan(r.targetShardID); ok {\n", New: "\t\t\tsent := false\n\t\t\tlogged := false\n\t\t\tch, ok := r.shardManager.GetRemoteSendChan(r.targetShardID)\n\t\t\tfor !sent {\n\t\t\t\tif ok {\n", Expect: "O8.18"},
		Variant{Name: "delivery channel lookup split from its test", Property: "C08", File: "proxy/intra_proxy_router.go", Benign: true,
			Old: "\t\t\tsent := false\n\t\t\tlogged := false\n\t\t\tfor !sent {\n\t\t\t\tif ch, ok := r.shardManager.GetRemoteSendChan(r.targetShardID); ok {\n", New: "\t\t\tsent := false\n\t\t\tlogged := false\n\t\t\tfor !sent {\n\t\t\t\tch, ok := r.shardManager.GetRemoteSendChan(r.targetShardID)\n\t\t\t\tif ok {\n"},
		Variant{Name: "remembered ack level written without the sender's mutex", Property: "C01", File: "proxy/proxy_streams.go",
			Old: "\t\t\t\t\t\t\ts.mu.Lock()\n\t\t\t\t\t\t\ts.prevAckBySource[srcShard] = originalAck\n\t\t\t\t\t\t\ts.mu.Unlock()\n", New: "\t\t\t\t\t\t\ts.prevAckBySource[srcShard] = originalAck\n", Expect: "O1.15"},
		Variant{Name: "remembered ack level stored through a local", Property: "C01", File: "proxy/proxy_streams.go", Benign: true,
			Old: "\t\t\t\t\t\t\ts.mu.Lock()\n\t\t\t\t\t\t\ts.prevAckBySource[srcShard] = originalAck\n\t\t\t\t\t\t\ts.mu.Unlock()\n", New: "\t\t\t\t\t\t\tlevel := originalAck\n\t\t\t\t\t\t\ts.mu.Lock()\n\t\t\t\t\t\t\ts.prevAckBySource[srcShard] = level\n\t\t\t\t\t\t\ts.mu.Unlock()\n"},
		Variant{Name: "remembered ack level is the proxy watermark, not the translated one", Property: "C01", File: "proxy/proxy_streams.go",
			Old: "\t\t\t\t\t\t\ts.mu.Lock()\n\t\t\t\t\t\t\ts.prevAckBySource[srcShard] = originalAck\n\t\t\t\t\t\t\ts.mu.Unlock()\n", New: "\t\t\t\t\t\t\ts.mu.Lock()\n\t\t\t\t\t\t\ts.prevAckBySource[srcShard] = proxyAckWatermark\n\t\t\t\t\t\t\ts.mu.Unlock()\n", Expect: "O1.15"},
		Variant{Name: "ack watermark read from the high-priority lane", Property: "C04", File: "proxy/proxy_streams.go",
			Old: "\t\t\tproxyAckWatermark := attr.SyncReplicationState.InclusiveLowWatermark\n", New: "\t\t\tproxyAckWatermark := attr.SyncReplicationState.GetHighPriorityState().GetInclusiveLowWatermark()\n", Expect: "O4.17"},
		Variant{Name: "ack watermark read through the getter", Property: "C04", File: "proxy/proxy_streams.go", Benign: true,
			Old: "\t\t\tproxyAckWatermark := attr.SyncReplicationState.InclusiveLowWatermark\n", New: "\t\t\tproxyAckWatermark := attr.SyncReplicationState.GetInclusiveLowWatermark()\n"},
		Variant{Name: "Append ignores a proxy id it has already seen", Property: "C05", File: "proxy/proxy_streams.go",
			Old: "\tb.ensureCapacity()\n\tif b.size == 0 {\n\t\tb.startProxyID = proxyID\n\t} else {\n", New: "\tif b.size > 0 && proxyID < b.startProxyID+int64(b.size) {\n\t\treturn\n\t}\n\tb.ensureCapacity()\n\tif b.size == 0 {\n\t\tb.startProxyID = proxyID\n\t} else {\n", Expect: "O5.10"},
		Variant{Name: "Append reads the tail slot for a debug log", Property: "C05", File: "proxy/proxy_streams.go", Benign: true,
			Old: "\tb.ensureCapacity()\n\tif b.size == 0 {\n\t\tb.startProxyID = proxyID\n\t} else {\n", New: "\tif b.size > 0 {\n\t\ttail := b.entries[(b.head+b.size-1)%len(b.entries)]\n\t\t_ = tail.sourceTask\n\t}\n\tb.ensureCapacity()\n\tif b.size == 0 {\n\t\tb.startProxyID = proxyID\n\t} else {\n"},
		Variant{Name: "tail slot read without the emptiness test", Property: "C05", File: "proxy/proxy_streams.go",
			Old: "\tb.ensureCapacity()\n\tif b.size == 0 {\n\t\tb.startProxyID = proxyID\n\t} else {\n", New: "\ttail := b.entries[(b.head+b.size-1)%len(b.entries)]\n\t_ = tail.sourceTask\n\tb.ensureCapacity()\n\tif b.size == 0 {\n\t\tb.startProxyID = proxyID\n\t} else {\n", Expect: "O5.1"},
		Variant{Name: "responses without a top-level namespace skip the walk", Property: "C12", File: "interceptor/translator.go",
			Old: "func (n *translatorImpl) TranslateResponse(resp any) (bool, error) {\n\treturn n.visitor(n.logger, resp, n.matchResp)\n}", New: "func (n *translatorImpl) TranslateResponse(resp any) (bool, error) {\n\tif r, ok := resp.(interface{ GetNamespace() string }); ok && r.GetNamespace() == \"\" {\n\t\treturn false, nil\n\t}\n\treturn n.visitor(n.logger, resp, n.matchResp)\n}", Expect: "O12.12"},
		Variant{Name: "visitor result passed on through locals", Property: "C12", File: "interceptor/translator.go", Benign: true,
			Old: "func (n *translatorImpl) TranslateResponse(resp any) (bool, error) {\n\treturn n.visitor(n.logger, resp, n.matchResp)\n}", New: "func (n *translatorImpl) TranslateResponse(resp any) (bool, error) {\n\tchanged, err := n.visitor(n.logger, resp, n.matchResp)\n\tif err != nil {\n\t\treturn changed, err\n\t}\n\treturn changed, nil\n}"},
		Variant{Name: "search-attribute requests are walked only when a mapping exists", Property: "C14", File: "interceptor/search_attribute_translator.go",
			Old: "func (s *saTranslator) TranslateRequest(req any) (bool, error) {\n\treturn visitSearchAttributes(s.logger, req, s.getNamespaceReqMatcher(\"\"))\n}", New: "func (s *saTranslator) TranslateRequest(req any) (bool, error) {\n\tif len(s.reqMap) == 0 {\n\t\treturn false, nil\n\t}\n\treturn visitSearchAttributes(s.logger, req, s.getNamespaceReqMatcher(\"\"))\n}", Expect: "O14.12"},
		Variant{Name: "request reset when a translator fails", Property: "C13", File: "interceptor/translation_interceptor.go",
			Old: "\t\t\tchanged, trErr := tr.TranslateRequest(req)\n\t\t\tlogTranslateResult(tr, i.logger, changed, trErr, methodName+\"Request\", req, time.Since(start))\n", New: "\t\t\tchanged, trErr := tr.TranslateRequest(req)\n\t\t\tlogTranslateResult(tr, i.logger, changed, trErr, methodName+\"Request\", req, time.Since(start))\n\t\t\tif m, isM := req.(interface{ Reset() }); isM && trErr != nil {\n\t\t\t\tm.Reset()\n\t\t\t}\n", Expect: "O13.11"},
		Variant{Name: "empty CA path yields no pool and no error", Property: "C19", File: "encryption/tls.go",
			Old: "\tif strings.HasPrefix(pathOrUrl, \"http://\") {\n\t\treturn nil, errors.New(\"HTTP is not supported for CA cert URLs. Provide HTTPS URL\")\n\t}\n", New: "\tif pathOrUrl == \"\" {\n\t\treturn nil, nil\n\t}\n\tif strings.HasPrefix(pathOrUrl, \"http://\") {\n\t\treturn nil, errors.New(\"HTTP is not supported for CA cert URLs. Provide HTTPS URL\")\n\t}\n", Expect: "O19.10"},
		Variant{Name: "empty CA path refused with its own message", Property: "C19", File: "encryption/tls.go", Benign: true,
			Old: "\tif strings.HasPrefix(pathOrUrl, \"http://\") {\n\t\treturn nil, errors.New(\"HTTP is not supported for CA cert URLs. Provide HTTPS URL\")\n\t}\n", New: "\tif pathOrUrl == \"\" {\n\t\treturn nil, errors.New(\"no CA certificate configured\")\n\t}\n\tif strings.HasPrefix(pathOrUrl, \"http://\") {\n\t\treturn nil, errors.New(\"HTTP is not supported for CA cert URLs. Provide HTTPS URL\")\n\t}\n"},
	)
	addVariants(
		Variant{Name: "Send to the initiator moved into a forwarder method", Property: "C06", File: "proxy/admin_stream_transfer.go", Benign: true,
			Old: "\t\t\tif err = f.targetStreamServer.Send(resp); err != nil {\n\t\t\t\tif err != io.EOF {\n\t\t\t\t\tf.logger.Error(\"targetStreamServer.Send encountered error\", tag.Error(err))\n\t\t\t\t} else {\n\t\t\t\t\tf.logger.Debug(\"targetStreamServer.Send encountered EOF\", tag.Error(err))\n\t\t\t\t\tmetrics.AdminServiceStreamTerminatedCount.WithLabelValues(append(f.metricLabelValues, \"target\")...).Inc()\n\t\t\t\t}\n\t\t\t\treturn\n\t\t\t}\n\t\t\tmetrics.AdminServiceStreamReqCount.WithLabelValues(f.metricLabelValues...).Inc()\n\t\tdefault:\n\t\t\tf.logger.Error(\"sourceStreamClient.Recv encountered error\", tag.Error(serviceerror.NewInternal(fmt.Sprintf(\n\t\t\t\t\"StreamWorkflowReplicationMessages encountered unknown type: %T %v\", attr, attr,\n\t\t\t))))\n\t\t\treturn\n\t\t}\n\t}\n}\n\nfunc (f *StreamForwarder) forwardAcks(wg *sync.WaitGroup) {\n", New: "\t\t\tif err = f.sendToTarget(resp); err != nil {\n\t\t\t\tif err != io.EOF {\n\t\t\t\t\tf.logger.Error(\"targetStreamServer.Send encountered error\", tag.Error(err))\n\t\t\t\t} else {\n\t\t\t\t\tf.logger.Debug(\"targetStreamServer.Send encountered EOF\", tag.Error(err))\n\t\t\t\t\tmetrics.AdminServiceStreamTerminatedCount.WithLabelValues(append(f.metricLabelValues, \"target\")...).Inc()\n\t\t\t\t}\n\t\t\t\treturn\n\t\t\t}\n\t\t\tmetrics.AdminServiceStreamReqCount.WithLabelValues(f.metricLabelValues...).Inc()\n\t\tdefault:\n\t\t\tf.logger.Error(\"sourceStreamClient.Recv encountered error\", tag.Error(serviceerror.NewInternal(fmt.Sprintf(\n\t\t\t\t\"StreamWorkflowReplicationMessages encountered unknown type: %T %v\", attr, attr,\n\t\t\t))))\n\t\t\treturn\n\t\t}\n\t}\n}\n\n// sendToTarget hands one batch to the initiator.\nfunc (f *StreamForwarder) sendToTarget(resp *adminservice.StreamWorkflowReplicationMessagesResponse) error {\n\treturn f.targetStreamServer.Send(resp)\n}\n\nfunc (f *StreamForwarder) forwardAcks(wg *sync.WaitGroup) {\n"},
		Variant{Name: "Send to the initiator behind a process-wide semaphore", Property: "C06", File: "proxy/admin_stream_transfer.go",
			Old: "\t\t\tif err = f.targetStreamServer.Send(resp); err != nil {\n\t\t\t\tif err != io.EOF {\n\t\t\t\t\tf.logger.Error(\"targetStreamServer.Send encountered error\", tag.Error(err))\n\t\t\t\t} else {\n\t\t\t\t\tf.logger.Debug(\"targetStreamServer.Send encountered EOF\", tag.Error(err))\n\t\t\t\t\tmetrics.AdminServiceStreamTerminatedCount.WithLabelValues(append(f.metricLabelValues, \"target\")...).Inc()\n\t\t\t\t}\n\t\t\t\treturn\n\t\t\t}\n\t\t\tmetrics.AdminServiceStreamReqCount.WithLabelValues(f.metricLabelValues...).Inc()\n\t\tdefault:\n\t\t\tf.logger.Error(\"sourceStreamClient.Recv encountered error\", tag.Error(serviceerror.NewInternal(fmt.Sprintf(\n\t\t\t\t\"StreamWorkflowReplicationMessages encountered unknown type: %T %v\", attr, attr,\n\t\t\t))))\n\t\t\treturn\n\t\t}\n\t}\n}\n\nfunc (f *StreamForwarder) forwardAcks(wg *sync.WaitGroup) {\n", New: "\t\t\tif err = f.sendToTarget(resp); err != nil {\n\t\t\t\tif err != io.EOF {\n\t\t\t\t\tf.logger.Error(\"targetStreamServer.Send encountered error\", tag.Error(err))\n\t\t\t\t} else {\n\t\t\t\t\tf.logger.Debug(\"targetStreamServer.Send encountered EOF\", tag.Error(err))\n\t\t\t\t\tmetrics.AdminServiceStreamTerminatedCount.WithLabelValues(append(f.metricLabelValues, \"target\")...).Inc()\n\t\t\t\t}\n\t\t\t\treturn\n\t\t\t}\n\t\t\tmetrics.AdminServiceStreamReqCount.WithLabelValues(f.metricLabelValues...).Inc()\n\t\tdefault:\n\t\t\tf.logger.Error(\"sourceStreamClient.Recv encountered error\", tag.Error(serviceerror.NewInternal(fmt.Sprintf(\n\t\t\t\t\"StreamWorkflowReplicationMessages encountered unknown type: %T %v\", attr, attr,\n\t\t\t))))\n\t\t\treturn\n\t\t}\n\t}\n}\n\nvar inFlight = make(chan struct{}, 64)\n\nfunc (f *StreamForwarder) sendToTarget(resp *adminservice.StreamWorkflowReplicationMessagesResponse) error {\n\tinFlight <- struct{}{}\n\tdefer func() { <-inFlight }()\n\treturn f.targetStreamServer.Send(resp)\n}\n\nfunc (f *StreamForwarder) forwardAcks(wg *sync.WaitGroup) {\n", Expect: "O6.17"},
	)
	addVariants(
		Variant{Name: "cleanup tail of waitAndCleanup moved into a helper", Property: "C10", File: "transport/mux/session/managed_mux_session.go", Benign: true,
			Old: "\ts.cancel()\n\t_ = s.session.Close()\n\t_ = s.conn.Close()\n\ts.state.Store(&MuxSessionInfo{State: Closed, Err: s.state.Load().Err})\n\tafterShutdown()\n}\n", New: "\tshutdown(s, afterShutdown)\n}\n\n// shutdown releases everything owned by the session and reports the exit.\nfunc shutdown(s *muxSession, afterShutdown func()) {\n\ts.cancel()\n\t_ = s.session.Close()\n\t_ = s.conn.Close()\n\ts.state.Store(&MuxSessionInfo{State: Closed, Err: s.state.Load().Err})\n\tafterShutdown()\n}\n"},
	)
	addVariants(
		Variant{Name: "forwarder's deferred cancel wrapped in a function literal", Property: "C06", File: "proxy/admin_stream_transfer.go", Benign: true,
			Old: "\tdefer cancel()\n", New: "\tdefer func() { cancel() }()\n"},
		Variant{Name: "handler's deferred gauge Dec wrapped in a function literal", Property: "C20", File: "proxy/adminservice.go", Benign: true,
			Old: "\tdefer streamsActiveGauge.Dec()\n", New: "\tdefer func() { streamsActiveGauge.Dec() }()\n"},
		Variant{Name: "receiver's deferred cancel wrapped in a function literal", Property: "C08", File: "proxy/proxy_streams.go", Benign: true,
			Old: "\toutgoingContext, cancel := context.WithCancel(outgoingContext)\n\tdefer cancel()\n", New: "\toutgoingContext, cancel := context.WithCancel(outgoingContext)\n\tdefer func() { cancel() }()\n"},
	)
	// ---- round 11
	addVariants(
		Variant{Name: "debug snapshot deletes shards that are also local from the peer's table", Property: "C09", File: "proxy/shard_manager.go",
			Old: "\t\tfor _, shard := range shards.Shards {\n\t\t\tshardKey := ClusterShardIDtoShortString(shard.ID)\n\t\t\tremoteShardsMap[shardKey] = nodeName\n\t\t}\n\t\tremoteShardCounts[nodeName] = len(shards.Shards)\n", New: "\t\tfor key, shard := range shards.Shards {\n\t\t\tshardKey := ClusterShardIDtoShortString(shard.ID)\n\t\t\tif _, isLocal := localShardMap[shardKey]; isLocal {\n\t\t\t\tdelete(shards.Shards, key)\n\t\t\t\tcontinue\n\t\t\t}\n\t\t\tremoteShardsMap[shardKey] = nodeName\n\t\t}\n\t\tremoteShardCounts[nodeName] = len(shards.Shards)\n", Expect: "O9.16"},
		Variant{Name: "debug snapshot skips shards that are also local, without touching the table", Property: "C09", File: "proxy/shard_manager.go", Benign: true,
			Old: "\t\tfor _, shard := range shards.Shards {\n\t\t\tshardKey := ClusterShardIDtoShortString(shard.ID)\n\t\t\tremoteShardsMap[shardKey] = nodeName\n\t\t}\n\t\tremoteShardCounts[nodeName] = len(shards.Shards)\n", New: "\t\tlisted := 0\n\t\tfor _, shard := range shards.Shards {\n\t\t\tshardKey := ClusterShardIDtoShortString(shard.ID)\n\t\t\tif _, isLocal := localShardMap[shardKey]; isLocal {\n\t\t\t\tcontinue\n\t\t\t}\n\t\t\tremoteShardsMap[shardKey] = nodeName\n\t\t\tlisted++\n\t\t}\n\t\tremoteShardCounts[nodeName] = listed\n"},
		Variant{Name: "the sender's own shard dropped from the translated levels", Property: "C05", File: "proxy/proxy_streams.go",
			Old: "\t\t\ts.mu.Lock()\n\t\t\tshardToAck, pendingDiscard := s.idRing.AggregateUpTo(proxyAckWatermark)\n\t\t\ts.mu.Unlock()\n", New: "\t\t\ts.mu.Lock()\n\t\t\tshardToAck, pendingDiscard := s.idRing.AggregateUpTo(proxyAckWatermark)\n\t\t\ts.mu.Unlock()\n\t\t\tdelete(shardToAck, s.targetShardID)\n", Expect: "O5.11"},
		Variant{Name: "node meta size compared with a constant", Property: "C20", File: "proxy/shard_manager.go",
			Old: "\tif len(data) > limit {\n\t\t// If metadata is too large, just send node name\n\t\treturn []byte(sd.manager.GetNodeName())\n\t}\n\n\treturn data\n", New: "\tif len(data) > 1024 {\n\t\t// If metadata is too large, just send node name\n\t\treturn []byte(sd.manager.GetNodeName())\n\t}\n\n\treturn data\n", Expect: "O20.14"},
		Variant{Name: "node meta returned on the fitting side of the test", Property: "C20", File: "proxy/shard_manager.go", Benign: true,
			Old: "\tif len(data) > limit {\n\t\t// If metadata is too large, just send node name\n\t\treturn []byte(sd.manager.GetNodeName())\n\t}\n\n\treturn data\n", New: "\tif len(data) <= limit {\n\t\treturn data\n\t}\n\t// If metadata is too large, just send node name\n\treturn []byte(sd.manager.GetNodeName())\n"},
		Variant{Name: "node meta size test (seen from C09)", Property: "C09", File: "proxy/shard_manager.go", Benign: true,
			Old: "\tif len(data) > limit {\n\t\t// If metadata is too large, just send node name\n\t\treturn []byte(sd.manager.GetNodeName())\n\t}\n\n\treturn data\n", New: "\tif limit >= len(data) {\n\t\treturn data\n\t}\n\t// If metadata is too large, just send node name\n\treturn []byte(sd.manager.GetNodeName())\n"},
		Variant{Name: "forwarder appends its own shard keys to the outgoing context", Property: "C07", File: "proxy/admin_stream_transfer.go",
			Old: "\toutgoingContext := metadata.NewOutgoingContext(f.targetStreamServer.Context(), f.targetMetadata)\n", New: "\toutgoingContext := metadata.NewOutgoingContext(f.targetStreamServer.Context(), f.targetMetadata)\n\toutgoingContext = metadata.AppendToOutgoingContext(outgoingContext, history.MetadataKeyServerShardID, strconv.Itoa(int(f.sourceClusterShardID.ShardID)))\n", Expect: "O7.9"},
		Variant{Name: "forwarder's metadata passed through a local", Property: "C07", File: "proxy/admin_stream_transfer.go", Benign: true,
			Old: "\toutgoingContext := metadata.NewOutgoingContext(f.targetStreamServer.Context(), f.targetMetadata)\n", New: "\tmd := f.targetMetadata\n\toutgoingContext := metadata.NewOutgoingContext(f.targetStreamServer.Context(), md)\n"},
		Variant{Name: "yamux config built by a local helper closure", Property: "C10", File: "transport/mux/establisher.go", Benign: true,
			Old: "\t\tcfg := yamux.DefaultConfig()\n\t\tcfg.Logger = wrapLoggerForYamux{logger: logger}\n\t\tcfg.LogOutput = nil\n\t\tcfg.StreamCloseTimeout = 30 * time.Second\n\t\treturn yamux.Client(conn, cfg)\n\t}\n", New: "\t\tmk := func() *yamux.Config {\n\t\t\tcfg := yamux.DefaultConfig()\n\t\t\tcfg.Logger = wrapLoggerForYamux{logger: logger}\n\t\t\tcfg.LogOutput = nil\n\t\t\tcfg.StreamCloseTimeout = 30 * time.Second\n\t\t\treturn cfg\n\t\t}\n\t\treturn yamux.Client(conn, mk())\n\t}\n"},
		Variant{Name: "policy list abbreviated for the log", Property: "C15", File: "config/config.go",
			Old: "func (l LoggingConfig) GetThrottleMaxRPS() float64 {\n\tif l.ThrottleMaxRPS > 0 {\n\t\treturn l.ThrottleMaxRPS\n\t}\n\treturn DefaultLoggingThrottleMaxRPS\n}\n", New: "func (l LoggingConfig) GetThrottleMaxRPS() float64 {\n\tif l.ThrottleMaxRPS > 0 {\n\t\treturn l.ThrottleMaxRPS\n\t}\n\treturn DefaultLoggingThrottleMaxRPS\n}\n\n// LoggedMethods abbreviates the allowed-method list for the startup log.\nfunc (p ACLPolicy) LoggedMethods() []string {\n\tentries := p.AllowedMethods.AdminService\n\tif len(entries) <= 10 {\n\t\treturn entries\n\t}\n\treturn append(entries[:10], \"...\")\n}\n", Expect: "O15.9"},
		Variant{Name: "policy list abbreviated for the log on a copy", Property: "C15", File: "config/config.go", Benign: true,
			Old: "func (l LoggingConfig) GetThrottleMaxRPS() float64 {\n\tif l.ThrottleMaxRPS > 0 {\n\t\treturn l.ThrottleMaxRPS\n\t}\n\treturn DefaultLoggingThrottleMaxRPS\n}\n", New: "func (l LoggingConfig) GetThrottleMaxRPS() float64 {\n\tif l.ThrottleMaxRPS > 0 {\n\t\treturn l.ThrottleMaxRPS\n\t}\n\treturn DefaultLoggingThrottleMaxRPS\n}\n\n// LoggedMethods abbreviates the allowed-method list for the startup log.\nfunc (p ACLPolicy) LoggedMethods() []string {\n\tentries := p.AllowedMethods.AdminService\n\tif len(entries) <= 10 {\n\t\treturn entries\n\t}\n\tout := make([]string, 0, 11)\n\tout = append(out, entries[:10]...)\n\treturn append(out, \"...\")\n}\n"},
	)
	// ---- round 12
	addVariants(
		Variant{Name: "TLS wrapper applied only when the dial took one attempt", Property: "C19", File: "transport/mux/establisher.go",
			Old: "\t\tclient, err = net.DialTimeout(\"tcp\", p.serverAddress, 5*time.Second)\n\t\tif err != nil {\n\t\t\treturn err\n\t\t}\n\t\tclient = p.tlsWrapper(client)\n\t\treturn nil\n", New: "\t\tclient, err = net.DialTimeout(\"tcp\", p.serverAddress, 5*time.Second)\n\t\treturn err\n", Expect: "O19.11"},
		Variant{Name: "dialled connection wrapped through a local", Property: "C19", File: "transport/mux/establisher.go", Benign: true,
			Old: "\t\tclient, err = net.DialTimeout(\"tcp\", p.serverAddress, 5*time.Second)\n\t\tif err != nil {\n\t\t\treturn err\n\t\t}\n\t\tclient = p.tlsWrapper(client)\n\t\treturn nil\n", New: "\t\traw, err := net.DialTimeout(\"tcp\", p.serverAddress, 5*time.Second)\n\t\tif err != nil {\n\t\t\treturn err\n\t\t}\n\t\tclient = p.tlsWrapper(raw)\n\t\treturn nil\n"},
		Variant{Name: "intra-proxy streams get the translating wrapper too", Property: "C12", File: "interceptor/translation_interceptor.go",
			Old: "\tif common.IsIntraProxy(ss.Context()) {\n\t\terr := handler(srv, ss)\n", New: "\tif common.IsIntraProxy(ss.Context()) {\n\t\terr := handler(srv, newStreamTranslator(ss, i.logger, i.translators))\n", Expect: "O12.13"},
		Variant{Name: "receiver used for an ack without a test of its stream", Property: "C08", File: "proxy/intra_proxy_router.go",
			Old: "\t\tif r, ok2 := ps.receivers[key]; ok2 && r != nil && r.streamClient != nil {\n\t\t\tif err := r.sendAck(req); err != nil {\n", New: "\t\tif r, ok2 := ps.receivers[key]; ok2 && r != nil {\n\t\t\tif err := r.sendAck(req); err != nil {\n", Expect: "O8.19"},
		Variant{Name: "receiver's stream tested in a nested if", Property: "C08", File: "proxy/intra_proxy_router.go", Benign: true,
			Old: "\t\tif r, ok2 := ps.receivers[key]; ok2 && r != nil && r.streamClient != nil {\n\t\t\tif err := r.sendAck(req); err != nil {\n", New: "\t\tif r, ok2 := ps.receivers[key]; ok2 && r != nil {\n\t\t\tif r.streamClient == nil {\n\t\t\t\treturn fmt.Errorf(\"peer stream not open\")\n\t\t\t}\n\t\t\tif err := r.sendAck(req); err != nil {\n"},
		Variant{Name: "blobs of a single event are not walked", Property: "C13", File: "interceptor/reflection.go",
			Old: "\tm, err := visitor(logger, events, match)\n\tmatched = matched || m\n", New: "\tif len(events) == 1 && !changed {\n\t\treturn blob, matched, changed, nil\n\t}\n\tm, err := visitor(logger, events, match)\n\tmatched = matched || m\n", Expect: "O13.14"},
		Variant{Name: "repair decodes the first buffer of the payload only", Property: "C18", File: "proto/compat/codec.go",
			Old: "\t\terr := convertAndRepairInvalidUTF8(data.Materialize(), v)\n", New: "\t\terr := convertAndRepairInvalidUTF8(data[0].ReadOnlyData(), v)\n", Expect: "O18.9"},
		Variant{Name: "materialised payload kept in a local", Property: "C18", File: "proto/compat/codec.go", Benign: true,
			Old: "\t\terr := convertAndRepairInvalidUTF8(data.Materialize(), v)\n", New: "\t\tpayload := data.Materialize()\n\t\terr := convertAndRepairInvalidUTF8(payload, v)\n"},
	)
	// ---- round 13
	addVariants(
		Variant{Name: "intra-proxy branch returns nil after logging the handler's error", Property: "C15", File: "interceptor/translation_interceptor.go",
			Old: "\t\terr := handler(srv, ss)\n\t\tif err != nil {\n\t\t\ti.logger.Error(\"grpc handler with error: %v\", tag.Error(err))\n\t\t}\n\t\treturn err\n", New: "\t\tif err := handler(srv, ss); err != nil {\n\t\t\ti.logger.Error(\"grpc handler with error: %v\", tag.Error(err))\n\t\t}\n\t\treturn nil\n", Expect: "O15.10"},
		Variant{Name: "intra-proxy branch in early-return style", Property: "C15", File: "interceptor/translation_interceptor.go", Benign: true,
			Old: "\t\terr := handler(srv, ss)\n\t\tif err != nil {\n\t\t\ti.logger.Error(\"grpc handler with error: %v\", tag.Error(err))\n\t\t}\n\t\treturn err\n", New: "\t\tif err := handler(srv, ss); err != nil {\n\t\t\ti.logger.Error(\"grpc handler with error: %v\", tag.Error(err))\n\t\t\treturn err\n\t\t}\n\t\treturn nil\n"},
	)
	// ---- round 14
	addVariants(
		Variant{Name: "tracker entry fetched without comma-ok and tested against nil", Property: "C08", File: "proxy/stream_tracker.go", Benign: true,
			Old: "\tif stream, exists := st.streams[id]; exists {\n\t\tstream.SenderDebug = info\n\t\tstream.LastSeen = time.Now()\n\t}\n", New: "\tstream := st.streams[id]\n\tif stream == nil {\n\t\treturn\n\t}\n\tstream.SenderDebug = info\n\tstream.LastSeen = time.Now()\n"},
		Variant{Name: "tracker entry used under a test of the snapshot instead of the entry", Property: "C08", File: "proxy/stream_tracker.go",
			Old: "\tif stream, exists := st.streams[id]; exists {\n\t\tstream.SenderDebug = info\n\t\tstream.LastSeen = time.Now()\n\t}\n", New: "\tstream := st.streams[id]\n\tif info != nil {\n\t\tstream.SenderDebug = info\n\t\tstream.LastSeen = time.Now()\n\t}\n", Expect: "O8.20"},
		Variant{Name: "IsIntraProxy as a one-line comparison with the marker", Property: "C12", File: "common/intra_headers.go", Benign: true,
			Old: "\tif md, ok := metadata.FromIncomingContext(ctx); ok {\n\t\tif vals := md.Get(IntraProxyHeaderKey); len(vals) > 0 && vals[0] == IntraProxyHeaderValue {\n\t\t\treturn true\n\t\t}\n\t}\n\treturn false\n", New: "\tvals := metadata.ValueFromIncomingContext(ctx, IntraProxyHeaderKey)\n\treturn len(vals) > 0 && vals[0] == IntraProxyHeaderValue\n"},
		Variant{Name: "IsIntraProxy true for any value of the header", Property: "C12", File: "common/intra_headers.go",
			Old: "\tif md, ok := metadata.FromIncomingContext(ctx); ok {\n\t\tif vals := md.Get(IntraProxyHeaderKey); len(vals) > 0 && vals[0] == IntraProxyHeaderValue {\n\t\t\treturn true\n\t\t}\n\t}\n\treturn false\n", New: "\tvals := metadata.ValueFromIncomingContext(ctx, IntraProxyHeaderKey)\n\treturn len(vals) > 0\n", Expect: "O12.15"},
	)
	// ---- C06
	ast := "proxy/admin_stream_transfer.go"
	addVariants(
		Variant{Name: "latch not tripped when the message direction stops", Property: "C06", File: ast,
			Old: "\tdefer func() {\n\t\tf.shutdownChan.Shutdown()\n\t\twg.Done()\n\t}()\n\n\tdataChan := startListener(f.sourceStreamClient, f.shutdownChan)", New: "\tdefer func() {\n\t\twg.Done()\n\t}()\n\n\tdataChan := startListener(f.sourceStreamClient, f.shutdownChan)", Expect: "O6.1"},
		Variant{Name: "loop continues after a failed Send", Property: "C06", File: ast,
			Old: "\t\t\t\t\tf.logger.Debug(\"targetStreamServer.Send encountered EOF\", tag.Error(err))\n\t\t\t\t\tmetrics.AdminServiceStreamTerminatedCount.WithLabelValues(append(f.metricLabelValues, \"target\")...).Inc()\n\t\t\t\t}\n\t\t\t\treturn\n", New: "\t\t\t\t\tf.logger.Debug(\"targetStreamServer.Send encountered EOF\", tag.Error(err))\n\t\t\t\t\tmetrics.AdminServiceStreamTerminatedCount.WithLabelValues(append(f.metricLabelValues, \"target\")...).Inc()\n\t\t\t\t}\n\t\t\t\tcontinue\n", Expect: "O6.4"},
		Variant{Name: "message mutated before relaying", Property: "C06", File: ast,
			Old: "\t\t\tif err = f.targetStreamServer.Send(resp); err != nil {", New: "\t\t\tattr.Messages.ExclusiveHighWatermark++\n\t\t\tif err = f.targetStreamServer.Send(resp); err != nil {", Expect: "O6.3"},
		Variant{Name: "outgoing context never cancelled", Property: "C06", File: ast,
			Old: "\toutgoingContext, cancel := context.WithCancel(outgoingContext)\n\tdefer cancel()\n", New: "\toutgoingContext, cancel := context.WithCancel(outgoingContext)\n\t_ = cancel\n", Expect: "O6.2"},
		Variant{Name: "unknown message kind skipped", Property: "C06", File: ast,
			Old: "\t\t\t\t\"StreamWorkflowReplicationMessages encountered unknown type: %T %v\", attr, attr,\n\t\t\t))))\n\t\t\treturn\n\t\t}\n\t}\n}\n\nfunc (f *StreamForwarder) forwardAcks", New: "\t\t\t\t\"StreamWorkflowReplicationMessages encountered unknown type: %T %v\", attr, attr,\n\t\t\t))))\n\t\t}\n\t}\n}\n\nfunc (f *StreamForwarder) forwardAcks", Expect: "O6.4"},
		Variant{Name: "listener hand-off without the latch", Property: "C06", File: ast,
			Old: "\t\t\tselect {\n\t\t\tcase targetStreamServerData <- ValueWithError[T]{val: req, err: err}:\n\t\t\tcase <-shutdownChan.Channel():\n\t\t\t\treturn\n\t\t\t}", New: "\t\t\ttargetStreamServerData <- ValueWithError[T]{val: req, err: err}", Expect: "O6.2"},
		Variant{Name: "closeSent unbuffered again", Property: "C06", File: ast,
			Old: "\t\tcloseSent := make(chan struct{}, 1)\n", New: "\t\tcloseSent := make(chan struct{})\n", Expect: "O6.5"},
		Variant{Name: "routing mode falls through to the pass-through forwarder", Property: "C06", File: ast,
			Old: "\t\treturn streamRouting(logger, streamServer, sourceClusterShardID, targetClusterShardID, shardManager, adminClientReverse, routingParameters, lifetime)\n\t}", New: "\t\tif routingParameters.OverrideShardCount > 0 {\n\t\t\treturn streamRouting(logger, streamServer, sourceClusterShardID, targetClusterShardID, shardManager, adminClientReverse, routingParameters, lifetime)\n\t\t}\n\t}", Expect: "O6.6"},
		Variant{Name: "acks relayed from a fresh request", Property: "C06", File: ast,
			Old: "\t\t\tif err = f.sourceStreamClient.Send(req); err != nil {", New: "\t\t\tif err = f.sourceStreamClient.Send(&adminservice.StreamWorkflowReplicationMessagesRequest{Attributes: attr}); err != nil {", Expect: "O6.3"},
		Variant{Name: "ack relay loop ignores the latch", Property: "C06", File: ast,
			Old: "\t\tvar req *adminservice.StreamWorkflowReplicationMessagesRequest\n\t\tvar err error\n\t\tselect {\n\t\tcase <-f.shutdownChan.Channel():\n\t\t\treturn\n\t\tcase valueWithError := <-dataChan:\n\t\t\treq = valueWithError.val\n\t\t\terr = valueWithError.err\n\t\t}", New: "\t\tvar req *adminservice.StreamWorkflowReplicationMessagesRequest\n\t\tvar err error\n\t\tvalueWithError := <-dataChan\n\t\treq = valueWithError.val\n\t\terr = valueWithError.err\n", Expect: "O6.2"},
	)
	// ---- C07
	cmn := "common/common.go"
	addVariants(
		Variant{Name: "Local/Remote shard counts swapped in getLCMParameters", Property: "C07", File: cc,
			Old: "\t\tif inverse {\n\t\t\treturn LCMParameters{\n\t\t\t\tLCM:              lcm,\n\t\t\t\tTargetShardCount: shardCountConfig.LocalShardCount,", New: "\t\tif inverse {\n\t\t\treturn LCMParameters{\n\t\t\t\tLCM:              lcm,\n\t\t\t\tTargetShardCount: shardCountConfig.RemoteShardCount,", Expect: "O7.1"},
		Variant{Name: "inbound server built with inverse=false", Property: "C07", File: cc,
			Old: "\t\tlcmParameters:     getLCMParameters(connConfig.ShardCountConfig, true),", New: "\t\tlcmParameters:     getLCMParameters(connConfig.ShardCountConfig, false),", Expect: "O7.1"},
		Variant{Name: "mapShardIDUnique arguments swapped", Property: "C07", File: ast,
			Old: "mapShardIDUnique(lcmParameters.LCM, lcmParameters.TargetShardCount, sourceClusterShardID.ShardID)", New: "mapShardIDUnique(lcmParameters.TargetShardCount, lcmParameters.LCM, sourceClusterShardID.ShardID)", Expect: "O7.3"},
		Variant{Name: "client shard id taken from the initiator's own id", Property: "C07", File: ast,
			Old: "\t\t\tShardID:   sourceClusterShardID.ShardID, // proxy fake shard id", New: "\t\t\tShardID:   targetClusterShardID.ShardID, // proxy fake shard id", Expect: "O7.3"},
		Variant{Name: "DescribeCluster override skipped when an FVI override exists", Property: "C07", File: adm,
			Old: "\tcase config.ShardCountLCM:\n\t\t// Present a fake number of shards. In LCM mode, we present the least\n\t\t// common multiple of both cluster shard counts.\n\t\tresp.HistoryShardCount = s.lcmParameters.LCM", New: "\tcase config.ShardCountLCM:\n\t\t// Present a fake number of shards. In LCM mode, we present the least\n\t\t// common multiple of both cluster shard counts.\n\t\tif s.overrides.FVI == 0 {\n\t\t\tresp.HistoryShardCount = s.lcmParameters.LCM\n\t\t}", Expect: "O7.2"},
		Variant{Name: "server cluster id swapped with client cluster id", Property: "C07", File: ast,
			Old: "\t\ttargetMetadata.Set(history.MetadataKeyServerClusterID, strconv.Itoa(int(newSourceShardID.ClusterID)))", New: "\t\ttargetMetadata.Set(history.MetadataKeyServerClusterID, strconv.Itoa(int(newTargetShardID.ClusterID)))", Expect: "O7.3"},
		Variant{Name: "first of several mapped shards accepted", Property: "C07", File: ast,
			Old: "\tif len(targetShardID) != 1 {", New: "\tif len(targetShardID) < 1 {", Expect: "O7.4"},
		Variant{Name: "LCM computed as the plain product", Property: "C07", File: cmn,
			Old: "\treturn a * b / GCD(a, b)", New: "\treturn a * b / GCD(a, a)", Expect: "O7.4"},
		Variant{Name: "server shard id key not set", Property: "C07", File: ast,
			Old: "\t\ttargetMetadata.Set(history.MetadataKeyServerShardID, strconv.Itoa(int(newSourceShardID.ShardID)))\n", New: "", Expect: "O7.3"},
	)
	// ---- C09
	addVariants(
		Variant{Name: "true returned after a failed forward", Property: "C09", File: shm,
			Old: "\t\t\t\t\t\tlogger.Error(\"Failed to forward replication messages to shard owner via intra-proxy\", tag.Error(err), tag.NewStringTag(\"owner\", owner), tag.NewStringTag(\"addr\", addr))\n\t\t\t\t\t\treturn false", New: "\t\t\t\t\t\tlogger.Error(\"Failed to forward replication messages to shard owner via intra-proxy\", tag.Error(err), tag.NewStringTag(\"owner\", owner), tag.NewStringTag(\"addr\", addr))\n\t\t\t\t\t\treturn true", Expect: "O9.1"},
		Variant{Name: "After instead of Before in NotifyMsg", Property: "C09", File: shm,
			Old: "\t\t\t\tif localShard.Created.Before(msg.Timestamp) {", New: "\t\t\t\tif localShard.Created.After(msg.Timestamp) {", Expect: "O9.2"},
		Variant{Name: "remote forward attempted even after local delivery", Property: "C09", File: shm,
			Old: "\t\t\t\tlogger.Debug(\"Delivered messages to local shard owner\")\n\t\t\t\tdelivered = true\n\t\t\tcase <-shutdownChan.Channel():\n\t\t\t\t// Shutdown signal received\n\t\t\t}\n\t\t}()\n\t\tif delivered {\n\t\t\treturn true\n\t\t}", New: "\t\t\t\tlogger.Debug(\"Delivered messages to local shard owner\")\n\t\t\t\tdelivered = true\n\t\t\tcase <-shutdownChan.Channel():\n\t\t\t\t// Shutdown signal received\n\t\t\t}\n\t\t}()\n\t\tif delivered && sm.memberlistConfig == nil {\n\t\t\treturn true\n\t\t}", Expect: "O9.1"},
		Variant{Name: "leaver's state kept", Property: "C09", File: shm,
			Old: "\t\tsed.manager.remoteNodeStatesMu.Lock()\n\t\tdelete(sed.manager.remoteNodeStates, node.Name)\n\t\tsed.manager.remoteNodeStatesMu.Unlock()\n", New: "", Expect: "O9.3"},
		Variant{Name: "delivered set when shutdown won the select", Property: "C09", File: shm,
			Old: "\t\t\t\tlogger.Debug(\"Delivered ACK to local shard owner\")\n\t\t\t\tdelivered = true\n\t\t\tcase <-shutdownChan.Channel():\n\t\t\t\t// Shutdown signal received\n", New: "\t\t\t\tlogger.Debug(\"Delivered ACK to local shard owner\")\n\t\t\t\tdelivered = true\n\t\t\tcase <-shutdownChan.Channel():\n\t\t\t\t// Shutdown signal received\n\t\t\t\tdelivered = true\n", Expect: "O9.1"},
		Variant{Name: "intra-proxy ack send reports success without a stream", Property: "C09", File: ipr,
			Old: "\t\t\treturn nil\n\t\t}\n\t}\n\treturn fmt.Errorf(\"peer not found\")", New: "\t\t\treturn nil\n\t\t}\n\t}\n\treturn nil", Expect: "O9.4"},
		Variant{Name: "eviction passes the announcement's timestamp", Property: "C09", File: shm,
			Old: "\t\t\t\t\tsd.manager.UnregisterShard(msg.ClientShard, localShard.Created)", New: "\t\t\t\t\tsd.manager.UnregisterShard(msg.ClientShard, msg.Timestamp)", Expect: "O9.2"},
		Variant{Name: "owner lookup before trying the local stream", Property: "C09", File: shm,
			Old: "\tlogger = log.With(logger, tag.NewStringTag(\"task-target-shard\", ClusterShardIDtoString(targetShard)))\n\n\t// Try local delivery first\n\tif ch, ok := sm.GetRemoteSendChan(targetShard); ok {", New: "\tlogger = log.With(logger, tag.NewStringTag(\"task-target-shard\", ClusterShardIDtoString(targetShard)))\n\n\tif owner, ok := sm.getShardOwner(targetShard); ok && owner != sm.GetNodeName() {\n\t\tif mgr := sm.GetIntraProxyManager(); mgr != nil {\n\t\t\treturn mgr.sendReplicationMessages(context.Background(), owner, targetShard, routedMsg.SourceShard, routedMsg.Resp) == nil\n\t\t}\n\t}\n\t// Try local delivery first\n\tif ch, ok := sm.GetRemoteSendChan(targetShard); ok {", Expect: "O9.1"},
	)
	// ---- C05
	addVariants(
		Variant{Name: "ensureCapacity copies entries[i] without head", Property: "C05", File: pst,
			Old: "\t\tidx := (b.head + i) % len(b.entries)\n\t\tnewEntries[i] = b.entries[idx]", New: "\t\tnewEntries[i] = b.entries[i]", Expect: "O5.1"},
		Variant{Name: "head not reset after growth", Property: "C05", File: pst,
			Old: "\tb.entries = newEntries\n\tb.head = 0\n", New: "\tb.entries = newEntries\n", Expect: "O5.2"},
		Variant{Name: "Discard does not advance startProxyID", Property: "C05", File: pst,
			Old: "\tb.size -= count\n\tb.startProxyID += int64(count)\n", New: "\tb.size -= count\n", Expect: "O5.3"},
		Variant{Name: "Discard advances startProxyID by the unclamped count", Property: "C05", File: pst,
			Old: "func (b *proxyIDRingBuffer) Discard(count int) {\n\tif count <= 0 {\n\t\treturn\n\t}\n", New: "func (b *proxyIDRingBuffer) Discard(count int) {\n\tif count <= 0 {\n\t\treturn\n\t}\n\trequested := count\n\tdefer func() { b.startProxyID += int64(requested - count) }()\n", Expect: "O5.3"},
		Variant{Name: "exclusive watermark in AggregateUpTo", Property: "C05", File: pst,
			Old: "\tcount64 := watermark - b.startProxyID + 1\n", New: "\tcount64 := watermark - b.startProxyID\n", Expect: "O5.3"},
		Variant{Name: "AggregateUpTo consumes what it aggregates", Property: "C05", File: pst,
			Old: "\t\t\tresult[m.sourceShard] = m.sourceTask\n\t\t}\n\t}\n\treturn result, count", New: "\t\t\tresult[m.sourceShard] = m.sourceTask\n\t\t}\n\t}\n\tb.head = (b.head + count) % len(b.entries)\n\treturn result, count", Expect: "O5.3"},
		Variant{Name: "final store of Append without a capacity check", Property: "C05", File: pst,
			Old: "\t// Inserting holes above may have filled the buffer\n\tb.ensureCapacity()\n", New: "", Expect: "O5.2"},
		Variant{Name: "length cached across growth in Append", Property: "C05", File: pst,
			Old: "\t\t\t\tb.ensureCapacity()\n\t\t\t\tpos := (b.head + b.size) % len(b.entries)\n", New: "\t\t\t\tn := len(b.entries)\n\t\t\t\tb.ensureCapacity()\n\t\t\t\tpos := (b.head + b.size) % n\n", Expect: "O5.1"},
		Variant{Name: "copy loop stops one short", Property: "C05", File: pst,
			Old: "\tfor i := 0; i < b.size; i++ {\n\t\tidx := (b.head + i) % len(b.entries)\n\t\tnewEntries[i] = b.entries[idx]", New: "\tfor i := 1; i < b.size; i++ {\n\t\tidx := (b.head + i) % len(b.entries)\n\t\tnewEntries[i] = b.entries[idx]", Expect: "O5.2"},
	)
	// ---- C01
	addVariants(
		Variant{Name: "maximum instead of minimum over the targets", Property: "C01", File: pst,
			Old: "\t\t\t\t\tif first || wm < min {", New: "\t\t\t\t\tif first || wm > min {", Expect: "O1.1"},
		Variant{Name: "targets at watermark zero excluded from the minimum", Property: "C01", File: pst,
			Old: "\t\t\t\tfor _, wm := range r.ackByTarget {\n\t\t\t\t\tif first || wm < min {", New: "\t\t\t\tfor _, wm := range r.ackByTarget {\n\t\t\t\t\tif wm == 0 {\n\t\t\t\t\t\tcontinue\n\t\t\t\t\t}\n\t\t\t\t\tif first || wm < min {", Expect: "O1.1"},
		Variant{Name: "per-source aggregation keeps the smallest id", Property: "C01", File: pst,
			Old: "\t\tif current, ok := result[m.sourceShard]; !ok || m.sourceTask > current {", New: "\t\tif current, ok := result[m.sourceShard]; !ok || m.sourceTask < current {", Expect: "O1.2"},
		Variant{Name: "ring entries discarded before the acks are forwarded", Property: "C01", File: pst,
			Old: "\t\t\tshardToAck, pendingDiscard := s.idRing.AggregateUpTo(proxyAckWatermark)\n\t\t\ts.mu.Unlock()\n", New: "\t\t\tshardToAck, pendingDiscard := s.idRing.AggregateUpTo(proxyAckWatermark)\n\t\t\ts.idRing.Discard(pendingDiscard)\n\t\t\tpendingDiscard = 0\n\t\t\ts.mu.Unlock()\n", Expect: "O1.3"},
		Variant{Name: "source counted as acknowledged although delivery failed", Property: "C01", File: pst,
			Old: "\t\t\t\t\t\t} else if !logged[srcShard] {\n\t\t\t\t\t\t\ts.logger.Warn(\"No local ack channel for source shard; retrying until available\", tag.NewStringTag(\"shard\", ClusterShardIDtoString(srcShard)))\n\t\t\t\t\t\t\tlogged[srcShard] = true\n\t\t\t\t\t\t}\n\t\t\t\t\t}\n\t\t\t\t\tif !progress {\n\t\t\t\t\t\ttime.Sleep(backoff)\n\t\t\t\t\t\tif backoff < time.Second {\n\t\t\t\t\t\t\tbackoff *= 2\n\t\t\t\t\t\t}\n\t\t\t\t\t} else if backoff > 10*time.Millisecond {\n\t\t\t\t\t\tbackoff = 10 * time.Millisecond\n\t\t\t\t\t}\n\t\t\t\t}\n\n\t\t\t\t// TODO: ack to idle shards using prevAckBySource", New: "\t\t\t\t\t\t} else if !logged[srcShard] {\n\t\t\t\t\t\t\ts.logger.Warn(\"No local ack channel for source shard; retrying until available\", tag.NewStringTag(\"shard\", ClusterShardIDtoString(srcShard)))\n\t\t\t\t\t\t\tlogged[srcShard] = true\n\t\t\t\t\t\t\tnumRemaining--\n\t\t\t\t\t\t\tsent[srcShard] = true\n\t\t\t\t\t\t}\n\t\t\t\t\t}\n\t\t\t\t\tif !progress {\n\t\t\t\t\t\ttime.Sleep(backoff)\n\t\t\t\t\t\tif backoff < time.Second {\n\t\t\t\t\t\t\tbackoff *= 2\n\t\t\t\t\t\t}\n\t\t\t\t\t} else if backoff > 10*time.Millisecond {\n\t\t\t\t\t\tbackoff = 10 * time.Millisecond\n\t\t\t\t\t}\n\t\t\t\t}\n\n\t\t\t\t// TODO: ack to idle shards using prevAckBySource", Expect: "O1.3"},
		Variant{Name: "watermark broadcast limited to the receiver's own shard number", Property: "C01", File: pst,
			Old: "\t\t\t\tlocalShardsToSend := r.shardManager.GetRemoteSendChansByCluster(r.targetShardID.ClusterID)", New: "\t\t\t\tlocalShardsToSend := r.shardManager.GetRemoteSendChansByCluster(r.sourceShardID.ClusterID)", Expect: "O1.4"},
	)
	// ---- C03
	addVariants(
		Variant{Name: "monotonicity guard dropped", Property: "C03", File: pst,
			Old: "\t\t\t\tif !first && min >= lastSentMin {", New: "\t\t\t\tif !first && lastSentMin >= 0 {", Expect: "O3.1"},
		Variant{Name: "clamp removed", Property: "C03", File: pst,
			Old: "\t\t\t\t\t\tmin = lastExclusiveHighOriginal\n", New: "", Expect: "O3.2"},
		Variant{Name: "lastSentMin updated before the send", Property: "C03", File: pst,
			Old: "\t\t\t\t\tr.logger.Debug(\"Receiver sending aggregated ACK upstream\", tag.NewInt64(\"inclusive_low\", min))\n", New: "\t\t\t\t\tr.logger.Debug(\"Receiver sending aggregated ACK upstream\", tag.NewInt64(\"inclusive_low\", min))\n\t\t\t\t\tr.lastSentMin = min\n", Expect: "O3.3"},
		Variant{Name: "keep-alive sends a fresh zero ack", Property: "C03", File: pst,
			Old: "\t\t\t\tif err := sourceStreamClient.Send(lastAck); err != nil {", New: "\t\t\t\tlastAck = &adminservice.StreamWorkflowReplicationMessagesRequest{Attributes: &adminservice.StreamWorkflowReplicationMessagesRequest_SyncReplicationState{SyncReplicationState: &replicationv1.SyncReplicationState{}}}\n\t\t\t\tif err := sourceStreamClient.Send(lastAck); err != nil {", Expect: "O3.4"},
		Variant{Name: "clamp bound taken from the first task id", Property: "C03", File: pst,
			Old: "\t\t\tr.lastExclusiveHighOriginal = attr.Messages.ExclusiveHighWatermark\n", New: "\t\t\tr.lastExclusiveHighOriginal = attr.Messages.ExclusiveHighWatermark + 1\n", Expect: "O3.2"},
	)
	// ---- C02
	addVariants(
		Variant{Name: "hash modulo the wrong cluster's shard count", Property: "C02", File: cc,
			Old: "\t\t\t\tOverrideShardCount:     shardCountConfig.RemoteShardCount,\n\t\t\t\tRoutingLocalShardCount: shardCountConfig.LocalShardCount,", New: "\t\t\t\tOverrideShardCount:     shardCountConfig.RemoteShardCount,\n\t\t\t\tRoutingLocalShardCount: shardCountConfig.RemoteShardCount,", Expect: "O2.1"},
		Variant{Name: "receiver uses the override count as modulus", Property: "C02", File: ast,
			Old: "\t\tlocalShardCount: routingParameters.RoutingLocalShardCount,", New: "\t\tlocalShardCount: routingParameters.OverrideShardCount,", Expect: "O2.1"},
		Variant{Name: "allocator bumped twice for the last task", Property: "C02", File: pst,
			Old: "\t\t\t\tproxyExclusiveHigh = m.Messages.ReplicationTasks[len(m.Messages.ReplicationTasks)-1].SourceTaskId + 1\n", New: "\t\t\t\ts.nextProxyTaskID++\n\t\t\t\tproxyExclusiveHigh = m.Messages.ReplicationTasks[len(m.Messages.ReplicationTasks)-1].SourceTaskId + 1\n", Expect: "O2.2"},
		Variant{Name: "raw task info keeps the original id", Property: "C02", File: pst,
			Old: "\t\t\t\t\tif t.RawTaskInfo != nil {\n\t\t\t\t\t\tt.RawTaskInfo.TaskId = proxyID\n\t\t\t\t\t}\n", New: "", Expect: "O2.3"},
		Variant{Name: "exclusive high equals the last task id", Property: "C02", File: pst,
			Old: "\t\t\t\tproxyExclusiveHigh = m.Messages.ReplicationTasks[len(m.Messages.ReplicationTasks)-1].SourceTaskId + 1\n", New: "\t\t\t\tproxyExclusiveHigh = m.Messages.ReplicationTasks[len(m.Messages.ReplicationTasks)-1].SourceTaskId\n", Expect: "O2.3"},
		Variant{Name: "target marked sent after the first attempt", Property: "C02", File: pst,
			Old: "\t\t\t\t\t} else {\n\t\t\t\t\t\tif !loggedByTarget[targetShardID] {", New: "\t\t\t\t\t} else {\n\t\t\t\t\t\tsentByTarget[targetShardID] = true\n\t\t\t\t\t\tnumRemaining--\n\t\t\t\t\t\tif !loggedByTarget[targetShardID] {", Expect: "O2.4"},
		Variant{Name: "allocation in the watermark-only branch not recorded", Property: "C02", File: pst,
			Old: "\t\t\t\ts.idRing.Append(proxyHigh, routed.SourceShard, originalHigh)\n", New: "", Expect: "O2.2"},
		Variant{Name: "hash uses the run id instead of the workflow id", Property: "C02", File: pst,
			Old: "servercommon.WorkflowIDToHistoryShard(task.RawTaskInfo.NamespaceId, task.RawTaskInfo.WorkflowId, r.localShardCount)", New: "servercommon.WorkflowIDToHistoryShard(task.RawTaskInfo.NamespaceId, task.RawTaskInfo.RunId, r.localShardCount)", Expect: "O2.1"},
	)
	// ---- C04
	addVariants(
		Variant{Name: "separate latches for sender and receiver", Property: "C04", File: ast,
			Old: "\tgo func() {\n\t\tdefer wg.Done()\n\t\tproxyStreamReceiver.Run(shutdownChan)\n\t}()", New: "\tgo func() {\n\t\tdefer wg.Done()\n\t\tproxyStreamReceiver.Run(channel.NewShutdownOnce())\n\t}()", Expect: "O4.1"},
		Variant{Name: "ack map allocated once in the constructor path", Property: "C04", File: pst,
			Old: "\t// init aggregation state\n\tr.ackByTarget = make(map[history.ClusterShardID]int64)\n\tr.lastSentMin = 0\n", New: "\t// init aggregation state\n\tif r.ackByTarget == nil {\n\t\tr.ackByTarget = make(map[history.ClusterShardID]int64)\n\t}\n", Expect: "O4.3"},
		Variant{Name: "recvAck ends without tripping the latch", Property: "C04", File: pst,
			Old: "\tdefer func() {\n\t\ts.logger.Debug(\"proxyStreamSender recvAck finished\")\n\t\tshutdownChan.Shutdown()\n\t}()", New: "\tdefer func() {\n\t\ts.logger.Debug(\"proxyStreamSender recvAck finished\")\n\t}()", Expect: "O4.2"},
		Variant{Name: "receiver worker does not trip the latch", Property: "C04", File: pst,
			Old: "\t\tdefer func() {\n\t\t\tshutdownChan.Shutdown()\n\t\t\twg.Done()\n\t\t}()\n\t\t_ = r.recvReplicationMessages(sourceStreamClient, shutdownChan)", New: "\t\tdefer func() {\n\t\t\twg.Done()\n\t\t}()\n\t\t_ = r.recvReplicationMessages(sourceStreamClient, shutdownChan)", Expect: "O4.2"},
		Variant{Name: "lifetime end does not stop routed streams", Property: "C04", File: ast,
			Old: "\tshutdownChan := channel.NewShutdownOnce()\n\t// Wire lifetime context to shutdownChan so cluster connection termination closes the stream\n\tcontext.AfterFunc(lifetime, func() {\n\t\tshutdownChan.Shutdown()\n\t})\n\twg := sync.WaitGroup{}", New: "\tshutdownChan := channel.NewShutdownOnce()\n\twg := sync.WaitGroup{}", Expect: "O4.1"},
	)
	// ---- behaviour-preserving refactorings: no rule may report anything on these
	addVariants(
		Variant{Name: "benign: ensureCapacity with two copy() segments", Property: "C05", File: pst, Benign: true,
			Old: "\tfor i := 0; i < b.size; i++ {\n\t\tidx := (b.head + i) % len(b.entries)\n\t\tnewEntries[i] = b.entries[idx]\n\t}\n", New: "\tcopy(newEntries, b.entries[b.head:])\n\tcopy(newEntries[len(b.entries)-b.head:], b.entries[:b.head])\n"},
		Variant{Name: "benign: RemoveRemoteSendChan in early-return style", Property: "C08", File: shm, Benign: true,
			Old: "\tif currentChan, exists := sm.remoteSendChannels[shardID]; exists && currentChan == expectedChan {\n\t\tdelete(sm.remoteSendChannels, shardID)\n\t\tsm.logger.Info(\"Removed remote send channel for shard\", tag.NewStringTag(\"shardID\", ClusterShardIDtoString(shardID)))\n\t} else {\n\t\tsm.logger.Info(\"Skipped removing remote send channel for shard (channel mismatch or already removed)\", tag.NewStringTag(\"shardID\", ClusterShardIDtoString(shardID)))\n\t}", New: "\tcurrentChan, exists := sm.remoteSendChannels[shardID]\n\tif !exists || currentChan != expectedChan {\n\t\tsm.logger.Info(\"Skipped removing remote send channel for shard (channel mismatch or already removed)\", tag.NewStringTag(\"shardID\", ClusterShardIDtoString(shardID)))\n\t\treturn\n\t}\n\tdelete(sm.remoteSendChannels, shardID)\n\tsm.logger.Info(\"Removed remote send channel for shard\", tag.NewStringTag(\"shardID\", ClusterShardIDtoString(shardID)))"},
		Variant{Name: "benign: minimum via the min builtin", Property: "C01", File: pst, Benign: true,
			Old: "\t\t\t\t\tif first || wm < min {\n\t\t\t\t\t\tmin = wm\n\t\t\t\t\t\tfirst = false\n\t\t\t\t\t}", New: "\t\t\t\t\tif first || min > wm {\n\t\t\t\t\t\tmin = wm\n\t\t\t\t\t\tfirst = false\n\t\t\t\t\t}"},
		Variant{Name: "benign: same refactoring seen by C03", Property: "C03", File: pst, Benign: true,
			Old: "\t\t\t\t\tif first || wm < min {\n\t\t\t\t\t\tmin = wm\n\t\t\t\t\t\tfirst = false\n\t\t\t\t\t}", New: "\t\t\t\t\tif first || min > wm {\n\t\t\t\t\t\tmin = wm\n\t\t\t\t\t\tfirst = false\n\t\t\t\t\t}"},
		Variant{Name: "benign: codec Unmarshal in early-return style", Property: "C17", File: cod, Benign: true,
			Old: "\terr := c.delegate.Unmarshal(data, v)\n\tif common.IsInvalidUTF8Error(err) {", New: "\terr := c.delegate.Unmarshal(data, v)\n\tif err == nil {\n\t\treturn nil\n\t}\n\tif common.IsInvalidUTF8Error(err) {"},
		Variant{Name: "benign: access checks reordered (admin list before deny-list)", Property: "C15", File: acl, Benign: true,
			Old: "\tif strings.HasPrefix(info.FullMethod, api.WorkflowServicePrefix) {\n\t\tmethodName := api.MethodName(info.FullMethod)\n\t\tif !auth.IsAllowedWorkflowMigrationAPIs(methodName) {\n\t\t\treturn nil, status.Errorf(codes.PermissionDenied, \"Calling method %s is not allowed.\", methodName)\n\t\t}\n\t}\n\n\tif i.adminServiceAccess != nil && strings.HasPrefix(info.FullMethod, api.AdminServicePrefix) {\n\t\tmethodName := api.MethodName(info.FullMethod)\n\t\tif !i.adminServiceAccess.IsAllowed(methodName) {\n\t\t\treturn nil, status.Errorf(codes.PermissionDenied, \"Calling method %s is not allowed.\", methodName)\n\t\t}\n\t}\n", New: "\tif i.adminServiceAccess != nil && strings.HasPrefix(info.FullMethod, api.AdminServicePrefix) {\n\t\tmethodName := api.MethodName(info.FullMethod)\n\t\tif !i.adminServiceAccess.IsAllowed(methodName) {\n\t\t\treturn nil, status.Errorf(codes.PermissionDenied, \"Calling method %s is not allowed.\", methodName)\n\t\t}\n\t}\n\n\tif strings.HasPrefix(info.FullMethod, api.WorkflowServicePrefix) {\n\t\tmethodName := api.MethodName(info.FullMethod)\n\t\tif !auth.IsAllowedWorkflowMigrationAPIs(methodName) {\n\t\t\treturn nil, status.Errorf(codes.PermissionDenied, \"Calling method %s is not allowed.\", methodName)\n\t\t}\n\t}\n"},
		Variant{Name: "benign: same reordering seen by C16", Property: "C16", File: acl, Benign: true,
			Old: "\tif strings.HasPrefix(info.FullMethod, api.WorkflowServicePrefix) {\n\t\tmethodName := api.MethodName(info.FullMethod)\n\t\tif !auth.IsAllowedWorkflowMigrationAPIs(methodName) {\n\t\t\treturn nil, status.Errorf(codes.PermissionDenied, \"Calling method %s is not allowed.\", methodName)\n\t\t}\n\t}\n\n\tif i.adminServiceAccess != nil && strings.HasPrefix(info.FullMethod, api.AdminServicePrefix) {\n\t\tmethodName := api.MethodName(info.FullMethod)\n\t\tif !i.adminServiceAccess.IsAllowed(methodName) {\n\t\t\treturn nil, status.Errorf(codes.PermissionDenied, \"Calling method %s is not allowed.\", methodName)\n\t\t}\n\t}\n", New: "\tif i.adminServiceAccess != nil && strings.HasPrefix(info.FullMethod, api.AdminServicePrefix) {\n\t\tmethodName := api.MethodName(info.FullMethod)\n\t\tif !i.adminServiceAccess.IsAllowed(methodName) {\n\t\t\treturn nil, status.Errorf(codes.PermissionDenied, \"Calling method %s is not allowed.\", methodName)\n\t\t}\n\t}\n\n\tif strings.HasPrefix(info.FullMethod, api.WorkflowServicePrefix) {\n\t\tmethodName := api.MethodName(info.FullMethod)\n\t\tif !auth.IsAllowedWorkflowMigrationAPIs(methodName) {\n\t\t\treturn nil, status.Errorf(codes.PermissionDenied, \"Calling method %s is not allowed.\", methodName)\n\t\t}\n\t}\n"},
		Variant{Name: "benign: unregisterMux with deferred unlock", Property: "C11", File: mmm, Benign: true,
			Old: "\tm.muxesLock.Lock()\n\tmux := m.muxes[id]\n\tm.logger.Info(\"Deregistered mux connection\", tag.NewStringTag(\"id\", id), tag.Error(mux.State().Err), tag.NewInt(\"state\", int(mux.State().State)))\n\tdelete(m.muxes, id)\n\tm.notifyChange()\n\tm.muxesLock.Unlock()", New: "\tm.muxesLock.Lock()\n\tdefer m.muxesLock.Unlock()\n\tmux := m.muxes[id]\n\tm.logger.Info(\"Deregistered mux connection\", tag.NewStringTag(\"id\", id), tag.Error(mux.State().Err), tag.NewInt(\"state\", int(mux.State().State)))\n\tdelete(m.muxes, id)\n\tm.notifyChange()"},
		Variant{Name: "benign: release before logging on connect failure", Property: "C10", File: prov, Benign: true,
			Old: "\t\t\t\t\tm.muxPermits.Release(1)\n\t\t\t\t\tm.logger.Info(\"Couldn't connect to mux TCP destination\", tag.Error(err))\n\t\t\t\t\tcontinue connect", New: "\t\t\t\t\tm.logger.Info(\"Couldn't connect to mux TCP destination\", tag.Error(err))\n\t\t\t\t\tm.muxPermits.Release(1)\n\t\t\t\t\tcontinue"},
		Variant{Name: "benign: parameters built before the literal", Property: "C07", File: cc, Benign: true,
			Old: "\tinboundCfg := serverConfiguration{", New: "\tinboundLCM := getLCMParameters(connConfig.ShardCountConfig, true)\n\t_ = inboundLCM\n\tinboundCfg := serverConfiguration{"},
		Variant{Name: "benign: ClientAuth through a local constant", Property: "C19", File: tlsf, Benign: true,
			Old: "\t\ttlsConfig.ClientAuth = tls.RequireAndVerifyClientCert\n", New: "\t\tconst mode = tls.RequireAndVerifyClientCert\n\t\ttlsConfig.ClientAuth = mode\n"},
		Variant{Name: "benign: skip list gains an event type without namespaces", Property: "C12", File: refl, Benign: true,
			Old: "\t\tenums.EVENT_TYPE_TIMER_STARTED:                       {},\n", New: "\t\tenums.EVENT_TYPE_TIMER_STARTED:                       {},\n\t\tenums.EVENT_TYPE_NEXUS_OPERATION_CANCEL_REQUEST_COMPLETED: {},\n"},
		Variant{Name: "benign: forwardAcks shuts down through a named helper", Property: "C06", File: ast, Benign: true,
			Old: "\t\tdefer f.logger.Info(\"proxyStreamForwarder forwardAck finished\")\n\t\tf.shutdownChan.Shutdown()\n", New: "\t\tdefer f.logger.Info(\"proxyStreamForwarder forwardAck finished\")\n\t\tlatch := f.shutdownChan\n\t\tlatch.Shutdown()\n"},
		Variant{Name: "benign: Discard with a local for the clamped count", Property: "C05", File: pst, Benign: true,
			Old: "\tb.head = (b.head + count) % len(b.entries)\n\tb.size -= count\n\tb.startProxyID += int64(count)", New: "\tn := count\n\tb.head = (b.head + n) % len(b.entries)\n\tb.size -= n\n\tb.startProxyID += int64(n)"},
		Variant{Name: "benign: ReportStreamValue growth factored into a helper-free block", Property: "C20", File: obs, Benign: true,
			Old: "\tif int(idx) >= len(s.streamActive) {", New: "\tif need := int(idx) + 1; need > len(s.streamActive) {"},
		Variant{Name: "benign: NotifyMsg compares with !After-or-equal form", Property: "C09", File: shm, Benign: true,
			Old: "\t\t\t\tif localShard.Created.Before(msg.Timestamp) {", New: "\t\t\t\tif older := localShard.Created.Before(msg.Timestamp); older {"},
		Variant{Name: "benign: translator constructor with locals", Property: "C13", File: trl, Benign: true,
			Old: "\treturn &translatorImpl{\n\t\tlogger:      logger,\n\t\tmatchMethod: func(string) bool { return true },\n\t\tmatchReq:    createStringMatcher(reqMap),\n\t\tmatchResp:   createStringMatcher(respMap),", New: "\treqMatcher, respMatcher := createStringMatcher(reqMap), createStringMatcher(respMap)\n\treturn &translatorImpl{\n\t\tlogger:      logger,\n\t\tmatchMethod: func(string) bool { return true },\n\t\tmatchReq:    reqMatcher,\n\t\tmatchResp:   respMatcher,"},
	)
	// ---- behaviour-preserving refactorings around the rules added after the second seeding round
	addVariants(
		Variant{Name: "benign: createTCPServer through a local copy of the cluster definition", Property: "C19", File: cc, Benign: true,
			Old: "\tgrpcServer, err := buildProxyServer(c, c.clusterDefinition.TcpServer.TLSConfig, observer.ReportStreamValue, lifetime)", New: "\tdef := c.clusterDefinition\n\tgrpcServer, err := buildProxyServer(c, def.TcpServer.TLSConfig, observer.ReportStreamValue, lifetime)"},
		Variant{Name: "benign: NotifyMsg with an early return when nobody listens", Property: "C09", File: shm, Benign: true,
			Old: "\t// Inform listeners about remote shard changes\n\tif sd.manager != nil && sd.manager.onRemoteShardChange != nil {\n\t\tadded := msg.Type == \"register\"\n", New: "\tif sd.manager == nil {\n\t\treturn\n\t}\n\t// Inform listeners about remote shard changes\n\tif sd.manager != nil && sd.manager.onRemoteShardChange != nil {\n\t\tadded := msg.Type == \"register\"\n"},
		Variant{Name: "benign: watermark branch logs only when the watermark changed", Property: "C03", File: pst, Benign: true,
			Old: "\t\t\t\tr.lastWatermarkMu.Lock()\n\t\t\t\tr.lastWatermark = &replicationv1.WorkflowReplicationMessages{", New: "\t\t\t\tr.lastWatermarkMu.Lock()\n\t\t\t\tif r.lastWatermark == nil || r.lastWatermark.ExclusiveHighWatermark != attr.Messages.ExclusiveHighWatermark {\n\t\t\t\t\tr.logger.Debug(\"watermark advanced\")\n\t\t\t\t}\n\t\t\t\tr.lastWatermark = &replicationv1.WorkflowReplicationMessages{"},
		Variant{Name: "benign: same edit seen by C01", Property: "C01", File: pst, Benign: true,
			Old: "\t\t\t\tr.lastWatermarkMu.Lock()\n\t\t\t\tr.lastWatermark = &replicationv1.WorkflowReplicationMessages{", New: "\t\t\t\tr.lastWatermarkMu.Lock()\n\t\t\t\tif r.lastWatermark == nil || r.lastWatermark.ExclusiveHighWatermark != attr.Messages.ExclusiveHighWatermark {\n\t\t\t\t\tr.logger.Debug(\"watermark advanced\")\n\t\t\t\t}\n\t\t\t\tr.lastWatermark = &replicationv1.WorkflowReplicationMessages{"},
		Variant{Name: "benign: endpoint map filled through a local", Property: "C11", File: mcc, Benign: true,
			Old: "\t\tconnMap[k] = v.Open\n", New: "\t\topen := v.Open\n\t\tconnMap[k] = open\n"},
		Variant{Name: "benign: failure-chain loop counted from 1 with <=", Property: "C18", File: rep, Benign: true,
			Old: "\tfor count := 0; failure != nil && count < maxFailureDepth; count++ {", New: "\tfor depth := 1; failure != nil && depth <= maxFailureDepth; depth++ {"},
		Variant{Name: "benign: same loop seen by C17", Property: "C17", File: rep, Benign: true,
			Old: "\tfor count := 0; failure != nil && count < maxFailureDepth; count++ {", New: "\tfor depth := 1; failure != nil && depth <= maxFailureDepth; depth++ {"},
		Variant{Name: "benign: remapped shard id written inside the literal", Property: "C07", File: ast, Benign: true,
			Old: "\t\tnewSourceShardID := history.ClusterShardID{\n\t\t\tClusterID: sourceClusterShardID.ClusterID,\n\t\t}\n\t\t// Remap shard id using the pre-calculated target shard count.\n\t\tnewSourceShardID.ShardID = mapShardIDUnique(lcmParameters.LCM, lcmParameters.TargetShardCount, sourceClusterShardID.ShardID)\n", New: "\t\tnewSourceShardID := history.ClusterShardID{\n\t\t\tClusterID: sourceClusterShardID.ClusterID,\n\t\t\tShardID:   mapShardIDUnique(lcmParameters.LCM, lcmParameters.TargetShardCount, sourceClusterShardID.ShardID),\n\t\t}\n"},
		Variant{Name: "benign: observer warns with a lock-free diagnostic while holding the lock", Property: "C20", File: obs, Benign: true,
			Old: "\t\tnewSize := min((int(idx)+1)*9, math.MaxInt32) / 8\n", New: "\t\tnewSize := min((int(idx)+1)*9, math.MaxInt32) / 8\n\t\tif newSize > 1<<20 {\n\t\t\ts.logger.Warn(\"large observer table\", tag.NewInt(\"size\", newSize))\n\t\t}\n"},
		Variant{Name: "benign: key chosen first, stored once", Property: "C14", File: refl, Benign: true,
			Old: "\t\tif matched && key != newKey {\n\t\t\tnewIndexed[newKey] = value\n\t\t} else {\n\t\t\tnewIndexed[key] = value\n\t\t}\n", New: "\t\ttarget := key\n\t\tif matched && key != newKey {\n\t\t\ttarget = newKey\n\t\t}\n\t\tnewIndexed[target] = value\n"},
		Variant{Name: "benign: key chosen first, stored once (C13 view)", Property: "C13", File: refl, Benign: true,
			Old: "\t\tif matched && key != newKey {\n\t\t\tnewIndexed[newKey] = value\n\t\t} else {\n\t\t\tnewIndexed[key] = value\n\t\t}\n", New: "\t\ttarget := key\n\t\tif matched && key != newKey {\n\t\t\ttarget = newKey\n\t\t}\n\t\tnewIndexed[target] = value\n"},
	)
	// ---- re-entrant lock acquisition (O8.6 / O10.6 / O20.6)
	addVariants(
		Variant{Name: "addLocalShard logs through a method that takes the same lock", Property: "C08", File: shm,
			Old: "\tkey := ClusterShardIDtoShortString(shard)\n\tnow := time.Now()\n\tsm.localShards[key] = ShardInfo{ID: shard, Created: now}\n", New: "\tkey := ClusterShardIDtoShortString(shard)\n\tnow := time.Now()\n\tif sm.IsLocalShard(shard) {\n\t\tsm.logger.Info(\"re-registering shard\")\n\t}\n\tsm.localShards[key] = ShardInfo{ID: shard, Created: now}\n", Expect: "O8.6"},
		Variant{Name: "onClose unregisters synchronously under the table lock", Property: "C10", File: mmm,
			Old: "\tfor _, v := range m.muxes {\n\t\tv.Close()\n\t}\n", New: "\tfor k, v := range m.muxes {\n\t\tv.Close()\n\t\tm.unregisterMux(k)\n\t}\n", Expect: "O10.6"},
		Variant{Name: "observer prints itself while holding its lock", Property: "C20", File: obs,
			Old: "\t\tnewSize := min((int(idx)+1)*9, math.MaxInt32) / 8\n", New: "\t\tnewSize := min((int(idx)+1)*9, math.MaxInt32) / 8\n\t\tif newSize > 1<<20 {\n\t\t\ts.logger.Warn(\"large observer table\", tag.NewStringTag(\"active\", s.PrintActiveStreams()))\n\t\t}\n", Expect: "O20.6"},
		Variant{Name: "benign: addLocalShard logs the key under the lock", Property: "C08", File: shm, Benign: true,
			Old: "\tkey := ClusterShardIDtoShortString(shard)\n\tnow := time.Now()\n\tsm.localShards[key] = ShardInfo{ID: shard, Created: now}\n", New: "\tkey := ClusterShardIDtoShortString(shard)\n\tnow := time.Now()\n\tsm.logger.Debug(\"registering shard \" + key)\n\tsm.localShards[key] = ShardInfo{ID: shard, Created: now}\n"},
	)
	// ---- F11 / F12 and the rules that found them
	addVariants(
		Variant{Name: "intra-proxy receiver records the watermark of task batches = F11", Property: "C01", File: ipr,
			Old: "\t\t\tif len(msgs.Messages.ReplicationTasks) == 0 {\n\t\t\t\tr.lastWatermarkMu.Lock()", New: "\t\t\tif len(msgs.Messages.ReplicationTasks) >= 0 {\n\t\t\t\tr.lastWatermarkMu.Lock()", Expect: "O1.6"},
		Variant{Name: "same edit seen by C04 = F11", Property: "C04", File: ipr,
			Old: "\t\t\tif len(msgs.Messages.ReplicationTasks) == 0 {\n\t\t\t\tr.lastWatermarkMu.Lock()", New: "\t\t\tif len(msgs.Messages.ReplicationTasks) >= 0 {\n\t\t\t\tr.lastWatermarkMu.Lock()", Expect: "O4.5"},
		Variant{Name: "intra-proxy retry loop sleeps without looking at the latch = F12", Property: "C08", File: ipr,
			Old: "\t\t\t\t\tselect {\n\t\t\t\t\tcase <-shutdown.Channel():\n\t\t\t\t\t\treturn nil\n\t\t\t\t\tcase <-time.After(backoff):\n\t\t\t\t\t}\n", New: "\t\t\t\t\ttime.Sleep(backoff)\n", Expect: "O8.7"},
		Variant{Name: "benign: intra-proxy retry loop checks the latch at the top instead", Property: "C08", File: ipr, Benign: true,
			Old: "\t\t\t\t\tselect {\n\t\t\t\t\tcase <-shutdown.Channel():\n\t\t\t\t\t\treturn nil\n\t\t\t\t\tcase <-time.After(backoff):\n\t\t\t\t\t}\n", New: "\t\t\t\t\tif shutdown.IsShutdown() {\n\t\t\t\t\t\treturn nil\n\t\t\t\t\t}\n\t\t\t\t\ttime.Sleep(backoff)\n"},
		Variant{Name: "benign: replay watermark recorded through a helper-free early continue", Property: "C01", File: pst, Benign: true,
			Old: "\t\t\t\tr.lastWatermarkMu.Lock()\n\t\t\t\tr.lastWatermark = &replicationv1.WorkflowReplicationMessages{\n\t\t\t\t\tExclusiveHighWatermark: attr.Messages.ExclusiveHighWatermark,\n\t\t\t\t\tPriority:               attr.Messages.Priority,\n\t\t\t\t}\n\t\t\t\tr.lastWatermarkMu.Unlock()\n", New: "\t\t\t\twm := &replicationv1.WorkflowReplicationMessages{\n\t\t\t\t\tExclusiveHighWatermark: attr.Messages.ExclusiveHighWatermark,\n\t\t\t\t\tPriority:               attr.Messages.Priority,\n\t\t\t\t}\n\t\t\t\tr.lastWatermarkMu.Lock()\n\t\t\t\tr.lastWatermark = wm\n\t\t\t\tr.lastWatermarkMu.Unlock()\n"},
	)
	// ---- F13 and the rule that decides it
	addVariants(
		Variant{Name: "targets handed tasks are not entered into ackByTarget = F13", Property: "C01", File: pst,
			Old: "\t\t\t\tif _, reported := r.ackByTarget[targetShardID]; !reported {\n\t\t\t\t\tr.ackByTarget[targetShardID] = tasks[0].SourceTaskId\n\t\t\t\t}\n", New: "\t\t\t\t_ = tasks\n\t\t\t\t_ = targetShardID\n", Expect: "O1.8"},
		Variant{Name: "initial entry overwrites what the target really confirmed", Property: "C01", File: pst,
			Old: "\t\t\t\tif _, reported := r.ackByTarget[targetShardID]; !reported {\n\t\t\t\t\tr.ackByTarget[targetShardID] = tasks[0].SourceTaskId\n\t\t\t\t}\n", New: "\t\t\t\tr.ackByTarget[targetShardID] = tasks[0].SourceTaskId\n", Expect: "O1.8", Contains: "only when absent"},
		Variant{Name: "initial entry is the last task id of the batch", Property: "C01", File: pst,
			Old: "\t\t\t\t\tr.ackByTarget[targetShardID] = tasks[0].SourceTaskId\n", New: "\t\t\t\t\tr.ackByTarget[targetShardID] = tasks[len(tasks)-1].SourceTaskId\n", Expect: "O1.8", Contains: "first task"},
		Variant{Name: "benign: entry ensured with a named local", Property: "C01", File: pst, Benign: true,
			Old: "\t\t\t\tif _, reported := r.ackByTarget[targetShardID]; !reported {\n\t\t\t\t\tr.ackByTarget[targetShardID] = tasks[0].SourceTaskId\n\t\t\t\t}\n", New: "\t\t\t\t_, known := r.ackByTarget[targetShardID]\n\t\t\t\tif known {\n\t\t\t\t\tcontinue\n\t\t\t\t}\n\t\t\t\tr.ackByTarget[targetShardID] = tasks[0].SourceTaskId\n"},
	)
	// ---- benign refactorings next to the rules of the fourth seeding round
	addVariants(
		Variant{Name: "benign: reconcile prune in continue style", Property: "C09", File: ipr, Benign: true,
			Old: "\t\t\tif _, ok2 := desiredReceivers[key]; !ok2 {\n\t\t\t\treceiversToClose = append(receiversToClose, key)\n\t\t\t}\n", New: "\t\t\tif _, ok2 := desiredReceivers[key]; ok2 {\n\t\t\t\tcontinue\n\t\t\t}\n\t\t\treceiversToClose = append(receiversToClose, key)\n"},
		Variant{Name: "benign: repair flag set with an if instead of ||", Property: "C17", File: refl, Benign: true,
			Old: "\t\tc, err := compat.RepairInvalidUTF8(event)\n\t\tchanged = changed || c\n", New: "\t\tc, err := compat.RepairInvalidUTF8(event)\n\t\tif c {\n\t\t\tchanged = true\n\t\t}\n"},
		Variant{Name: "benign: watermark clone assigned after the literal", Property: "C02", File: pst, Benign: true,
			Old: "\t\t\t\t\tclonedResp := proto.Clone(msg.Resp).(*adminservice.StreamWorkflowReplicationMessagesResponse)\n\t\t\t\t\tclonedMsg := RoutedMessage{\n\t\t\t\t\t\tSourceShard: msg.SourceShard,\n\t\t\t\t\t\tResp:        clonedResp,\n\t\t\t\t\t}\n\t\t\t\t\tr.logger.Debug(fmt.Sprintf(\"Sending high watermark", New: "\t\t\t\t\tclonedMsg := RoutedMessage{\n\t\t\t\t\t\tSourceShard: msg.SourceShard,\n\t\t\t\t\t}\n\t\t\t\t\tclonedMsg.Resp = proto.Clone(msg.Resp).(*adminservice.StreamWorkflowReplicationMessagesResponse)\n\t\t\t\t\tr.logger.Debug(fmt.Sprintf(\"Sending high watermark"},
		Variant{Name: "benign: AggregateUpTo keeps the maximum with max()", Property: "C05", File: pst, Benign: true,
			Old: "\t\tif current, ok := result[m.sourceShard]; !ok || m.sourceTask > current {\n\t\t\tresult[m.sourceShard] = m.sourceTask\n\t\t}\n", New: "\t\tif current, ok := result[m.sourceShard]; ok && current >= m.sourceTask {\n\t\t\tcontinue\n\t\t}\n\t\tresult[m.sourceShard] = m.sourceTask\n"},
	)
	addVariants(
		Variant{Name: "benign: AggregateUpTo in continue style (C01 view)", Property: "C01", File: pst, Benign: true,
			Old: "\t\tif current, ok := result[m.sourceShard]; !ok || m.sourceTask > current {\n\t\t\tresult[m.sourceShard] = m.sourceTask\n\t\t}\n", New: "\t\tif current, ok := result[m.sourceShard]; ok && current >= m.sourceTask {\n\t\t\tcontinue\n\t\t}\n\t\tresult[m.sourceShard] = m.sourceTask\n"},
		Variant{Name: "benign: two-segment copy in ensureCapacity (C04 view, imported obligations)", Property: "C04", File: pst, Benign: true,
			Old: "\tfor i := 0; i < b.size; i++ {\n\t\tidx := (b.head + i) % len(b.entries)\n\t\tnewEntries[i] = b.entries[idx]\n\t}\n", New: "\tcopy(newEntries, b.entries[b.head:])\n\tcopy(newEntries[len(b.entries)-b.head:], b.entries[:b.head])\n"},
	)
	addVariants(
		Variant{Name: "benign: Skip after a search-attribute container was handled", Property: "C14", File: refl, Benign: true,
			Old: "\t\t\t// No need to descend into this type further.\n\t\t\treturn visit.Continue, nil\n", New: "\t\t\t// No need to descend into this type further.\n\t\t\treturn visit.Skip, nil\n"},
	)
	addVariants(
		Variant{Name: "benign: session id formatted with strconv", Property: "C10", File: mmm, Benign: true,
			Old: "\tnewId := fmt.Sprintf(\"%d\", m.muxIdSequencer)\n", New: "\tnewId := strconv.FormatUint(m.muxIdSequencer, 10)\n"},
		Variant{Name: "benign: LCM case logs between the metadata rewrites", Property: "C07", File: ast, Benign: true,
			Old: "\t\ttargetMetadata.Set(history.MetadataKeyClientShardID, strconv.Itoa(int(newTargetShardID.ShardID)))\n", New: "\t\ttargetMetadata.Set(history.MetadataKeyClientShardID, strconv.Itoa(int(newTargetShardID.ShardID)))\n\t\tif newTargetShardID.ShardID > lcmParameters.TargetShardCount {\n\t\t\tlogger.Debug(\"initiator shard id above the serving cluster's count\")\n\t\t}\n"},
		Variant{Name: "benign: dialer releases the lock through a deferred call in a helper closure", Property: "C11", File: mcc, Benign: true,
			Old: "\t\tmcc.connMapLock.RLock()\n\t\tconnFn, exists := mcc.connMap[addr]\n\t\tmcc.connMapLock.RUnlock()\n", New: "\t\tmcc.connMapLock.RLock()\n\t\tconnFn, exists := mcc.connMap[addr]\n\t\tmcc.connMapLock.RUnlock()\n\t\t_ = ctx\n"},
	)
	// ---- blocking operations under locks (O8.8 / O10.8 / O11.5 / O20.8)
	addVariants(
		Variant{Name: "tracker update throttled with a sleep under its lock", Property: "C20", File: trk,
			Old: "\tif stream, exists := st.streams[id]; exists {\n\t\tstream.LastSeen = time.Now()\n\t}\n", New: "\tif stream, exists := st.streams[id]; exists {\n\t\tstream.LastSeen = time.Now()\n\t} else {\n\t\ttime.Sleep(time.Millisecond)\n\t}\n", Expect: "O20.8"},
		Variant{Name: "local-shard callback invoked under the shard table lock", Property: "C08", File: shm,
			Old: "\tkey := ClusterShardIDtoShortString(shard)\n\tnow := time.Now()\n\tsm.localShards[key] = ShardInfo{ID: shard, Created: now}\n", New: "\tkey := ClusterShardIDtoShortString(shard)\n\tnow := time.Now()\n\tsm.localShards[key] = ShardInfo{ID: shard, Created: now}\n\tif sm.onLocalShardChange != nil {\n\t\tsm.onLocalShardChange(shard, true)\n\t}\n", Expect: "O8.8"},
		Variant{Name: "new session pinged under the table lock", Property: "C10", File: mmm,
			Old: "\tnewId := fmt.Sprintf(\"%d\", m.muxIdSequencer)\n", New: "\tif _, err := yamuxSession.Ping(); err != nil {\n\t\tm.logger.Info(\"ping failed\")\n\t}\n\tnewId := fmt.Sprintf(\"%d\", m.muxIdSequencer)\n", Expect: "O10.8"},
		Variant{Name: "same edit seen by C11", Property: "C11", File: mmm,
			Old: "\tnewId := fmt.Sprintf(\"%d\", m.muxIdSequencer)\n", New: "\tif _, err := yamuxSession.Ping(); err != nil {\n\t\tm.logger.Info(\"ping failed\")\n\t}\n\tnewId := fmt.Sprintf(\"%d\", m.muxIdSequencer)\n", Expect: "O11.5"},
	)
	addVariants(
		Variant{Name: "IsEnabled requires the CA server name as well", Property: "C19", File: tlsf,
			Old: "\treturn (t.CertificatePath != \"\" && t.KeyPath != \"\") || t.CAServerName != \"\"\n", New: "\treturn (t.CertificatePath != \"\" && t.KeyPath != \"\") && t.CAServerName != \"\"\n", Expect: "O19.6"},
		Variant{Name: "benign: IsEnabled in if-return style", Property: "C19", File: tlsf, Benign: true,
			Old: "\treturn (t.CertificatePath != \"\" && t.KeyPath != \"\") || t.CAServerName != \"\"\n", New: "\tif t.CAServerName != \"\" {\n\t\treturn true\n\t}\n\treturn t.CertificatePath != \"\" && t.KeyPath != \"\"\n"},
		Variant{Name: "shard key drops the cluster id", Property: "C08", File: adm,
			Old: "\treturn fmt.Sprintf(\"%d:%d\", sd.ClusterID, sd.ShardID)\n", New: "\treturn fmt.Sprintf(\"%d:%d\", sd.ShardID, sd.ShardID)\n", Expect: "O8.9"},
		Variant{Name: "shard key without separator (C09 view)", Property: "C09", File: adm,
			Old: "\treturn fmt.Sprintf(\"%d:%d\", sd.ClusterID, sd.ShardID)\n", New: "\treturn fmt.Sprintf(\"%d%d\", sd.ClusterID, sd.ShardID)\n", Expect: "O9.7"},
	)
	addVariants(
		Variant{Name: "benign: intra-proxy sendAck with a plain map index", Property: "C09", File: ipr, Benign: true,
			Old: "\t\tif r, ok2 := ps.receivers[key]; ok2 && r != nil && r.streamClient != nil {\n\t\t\tif err := r.sendAck(req); err != nil {\n", New: "\t\tif r := ps.receivers[key]; r != nil && r.streamClient != nil {\n\t\t\tif err := r.sendAck(req); err != nil {\n"},
		Variant{Name: "benign: same edit seen by C01", Property: "C01", File: ipr, Benign: true,
			Old: "\t\tif r, ok2 := ps.receivers[key]; ok2 && r != nil && r.streamClient != nil {\n\t\t\tif err := r.sendAck(req); err != nil {\n", New: "\t\tif r := ps.receivers[key]; r != nil && r.streamClient != nil {\n\t\t\tif err := r.sendAck(req); err != nil {\n"},
		Variant{Name: "benign: NodeMeta checks the logger first", Property: "C09", File: shm, Benign: true,
			Old: "\tif sd.manager == nil || sd.manager.memberlistConfig == nil {\n\t\treturn nil\n\t}\n\t// Copy shard map under read lock", New: "\tif sd.manager == nil {\n\t\treturn nil\n\t}\n\tif sd.manager.memberlistConfig == nil {\n\t\treturn nil\n\t}\n\t// Copy shard map under read lock"},
	)
	// ---- benign multi-hunk refactorings kept as patches under /verif/seeded-benign
	addVariants(
		Variant{Name: "benign: admin allow-list test factored into a helper (the repaired form of seed C15-d)", Property: "C15", File: "seeded-benign/C15-helper-extraction.diff", Benign: true,
			Patch: "seeded-benign/C15-helper-extraction.diff"},
	)
	// ---- a second batch of behaviour-preserving refactorings (style changes a reviewer would wave through)
	addVariants(
		Variant{Name: "benign: UnregisterShard guard as nested ifs", Property: "C08", File: shm, Benign: true,
			Old: "\tif shardInfo, exists := sm.localShards[key]; exists && shardInfo.Created.Equal(expectedRegisteredAt) {\n", New: "\tshardInfo, exists := sm.localShards[key]\n\tif exists && shardInfo.Created.Equal(expectedRegisteredAt) {\n"},
		Variant{Name: "benign: sendAck minimum with an explicit found flag", Property: "C01", File: pst, Benign: true,
			Old: "\t\t\t\tmin := int64(0)\n\t\t\t\tfirst := true\n\t\t\t\tfor _, wm := range r.ackByTarget {\n\t\t\t\t\tif first || wm < min {\n\t\t\t\t\t\tmin = wm\n\t\t\t\t\t\tfirst = false\n\t\t\t\t\t}\n\t\t\t\t}\n", New: "\t\t\t\tmin := int64(0)\n\t\t\t\tfirst := true\n\t\t\t\tfor _, wm := range r.ackByTarget {\n\t\t\t\t\tif first {\n\t\t\t\t\t\tmin = wm\n\t\t\t\t\t\tfirst = false\n\t\t\t\t\t\tcontinue\n\t\t\t\t\t}\n\t\t\t\t\tif wm < min {\n\t\t\t\t\t\tmin = wm\n\t\t\t\t\t}\n\t\t\t\t}\n"},
		Variant{Name: "benign: same refactoring seen by C03", Property: "C03", File: pst, Benign: true,
			Old: "\t\t\t\tmin := int64(0)\n\t\t\t\tfirst := true\n\t\t\t\tfor _, wm := range r.ackByTarget {\n\t\t\t\t\tif first || wm < min {\n\t\t\t\t\t\tmin = wm\n\t\t\t\t\t\tfirst = false\n\t\t\t\t\t}\n\t\t\t\t}\n", New: "\t\t\t\tmin := int64(0)\n\t\t\t\tfirst := true\n\t\t\t\tfor _, wm := range r.ackByTarget {\n\t\t\t\t\tif first {\n\t\t\t\t\t\tmin = wm\n\t\t\t\t\t\tfirst = false\n\t\t\t\t\t\tcontinue\n\t\t\t\t\t}\n\t\t\t\t\tif wm < min {\n\t\t\t\t\t\tmin = wm\n\t\t\t\t\t}\n\t\t\t\t}\n"},
		Variant{Name: "benign: handleStream mode dispatch as if-chain", Property: "C06", File: ast, Benign: true,
			Old: "\tswitch shardCountConfig.Mode {\n\tcase config.ShardCountLCM:\n", New: "\tswitch mode := shardCountConfig.Mode; mode {\n\tcase config.ShardCountLCM:\n"},
		Variant{Name: "benign: same edit seen by C07", Property: "C07", File: ast, Benign: true,
			Old: "\tswitch shardCountConfig.Mode {\n\tcase config.ShardCountLCM:\n", New: "\tswitch mode := shardCountConfig.Mode; mode {\n\tcase config.ShardCountLCM:\n"},
		Variant{Name: "benign: ACL namespace test with the prefix checks first", Property: "C16", File: acl, Benign: true,
			Old: "\tif i.namespaceAccess != nil &&\n", New: "\tif nsAccess := i.namespaceAccess; nsAccess != nil &&\n"},
		Variant{Name: "benign: GetClientTLSConfig name check with an early error", Property: "C19", File: tlsf, Benign: true,
			Old: "\tif !clientConfig.SkipCAVerification {\n\t\tif clientConfig.CAServerName == \"\" {\n\t\t\treturn nil, errors.New(\"CAServerName must be set when SkipCAVerification is false\")\n\t\t}\n\t\ttlsConfig.ServerName = clientConfig.CAServerName\n\t}\n", New: "\tif !clientConfig.SkipCAVerification && clientConfig.CAServerName == \"\" {\n\t\treturn nil, errors.New(\"CAServerName must be set when SkipCAVerification is false\")\n\t}\n\tif !clientConfig.SkipCAVerification {\n\t\ttlsConfig.ServerName = clientConfig.CAServerName\n\t}\n"},
		Variant{Name: "benign: OnConnectionListUpdate with a len check after the map is built", Property: "C11", File: mcc, Benign: true,
			Old: "\tconnMap := make(map[string]func() (net.Conn, error), len(muxes))\n", New: "\tn := len(muxes)\n\tconnMap := make(map[string]func() (net.Conn, error), n)\n"},
		Variant{Name: "benign: codec Unmarshal stores the classification in a local", Property: "C17", File: cod, Benign: true,
			Old: "\terr := c.delegate.Unmarshal(data, v)\n\tif common.IsInvalidUTF8Error(err) {\n", New: "\terr := c.delegate.Unmarshal(data, v)\n\tif invalid := common.IsInvalidUTF8Error(err); invalid {\n"},
		Variant{Name: "benign: recvAck keeps the aggregated count in a named local", Property: "C05", File: pst, Benign: true,
			Old: "\t\t\t\ts.idRing.Discard(pendingDiscard)\n", New: "\t\t\t\tn := pendingDiscard\n\t\t\t\ts.idRing.Discard(n)\n"},
		Variant{Name: "benign: same edit seen by C01", Property: "C01", File: pst, Benign: true,
			Old: "\t\t\t\ts.idRing.Discard(pendingDiscard)\n", New: "\t\t\t\tn := pendingDiscard\n\t\t\t\ts.idRing.Discard(n)\n"},
	)
	addVariants(
		Variant{Name: "benign: ackByTarget entry ensured inside the delivery loop, before the hand-over", Property: "C01", File: "seeded-benign/C01-entry-inside-loop-before-handover.diff", Benign: true,
			Patch: "seeded-benign/C01-entry-inside-loop-before-handover.diff"},
		Variant{Name: "benign: same patch seen by C04", Property: "C04", File: "seeded-benign/C01-entry-inside-loop-before-handover.diff", Benign: true,
			Patch: "seeded-benign/C01-entry-inside-loop-before-handover.diff"},
		Variant{Name: "benign: same patch seen by C03", Property: "C03", File: "seeded-benign/C01-entry-inside-loop-before-handover.diff", Benign: true,
			Patch: "seeded-benign/C01-entry-inside-loop-before-handover.diff"},
	)
	// ---- relay loops (O2.8 / O3.9 / O4.11 / O6.10): guards that skip nothing of the relayed kind
	addVariants(
		Variant{Name: "benign: receiver skips a nil / bodiless response before the kind test", Property: "C02", File: "seeded-benign/C02-nil-message-guard.diff", Benign: true,
			Patch: "seeded-benign/C02-nil-message-guard.diff"},
		Variant{Name: "benign: same patch seen by C03", Property: "C03", File: "seeded-benign/C02-nil-message-guard.diff", Benign: true,
			Patch: "seeded-benign/C02-nil-message-guard.diff"},
		Variant{Name: "benign: same patch seen by C04", Property: "C04", File: "seeded-benign/C02-nil-message-guard.diff", Benign: true,
			Patch: "seeded-benign/C02-nil-message-guard.diff"},
		Variant{Name: "benign: intra-proxy ack relay dispatches with a type switch", Property: "C04", File: ipr, Benign: true,
			Old: "\t\tif attr, ok := req.GetAttributes().(*adminservice.StreamWorkflowReplicationMessagesRequest_SyncReplicationState); ok && attr.SyncReplicationState != nil {\n\t\t\tack := attr.SyncReplicationState.InclusiveLowWatermark\n", New: "\t\tswitch attr := req.GetAttributes().(type) {\n\t\tcase *adminservice.StreamWorkflowReplicationMessagesRequest_SyncReplicationState:\n\t\t\tif attr.SyncReplicationState == nil {\n\t\t\t\tcontinue\n\t\t\t}\n\t\t\tack := attr.SyncReplicationState.InclusiveLowWatermark\n"},
	)
	// ---- observer index guard, boundary form (O20.9 / O7.5 / O6.11)
	addVariants(
		Variant{Name: "benign: growth test written as idx+1 > len", Property: "C20", File: "proxy/replication_stream_observer.go", Benign: true,
			Old: "\tif int(idx) >= len(s.streamActive) {\n", New: "\tif int(idx)+1 > len(s.streamActive) {\n"},
		Variant{Name: "benign: same edit seen by C06", Property: "C06", File: "proxy/replication_stream_observer.go", Benign: true,
			Old: "\tif int(idx) >= len(s.streamActive) {\n", New: "\tif int(idx)+1 > len(s.streamActive) {\n"},
		Variant{Name: "benign: growth test with the operands swapped", Property: "C07", File: "proxy/replication_stream_observer.go", Benign: true,
			Old: "\tif int(idx) >= len(s.streamActive) {\n", New: "\tif n := len(s.streamActive); n <= int(idx) {\n"},
		Variant{Name: "growth test lets idx == len-1+2 through (idx >= len+1)", Property: "C20", File: "proxy/replication_stream_observer.go",
			Old: "\tif int(idx) >= len(s.streamActive) {\n", New: "\tif int(idx) >= len(s.streamActive)+1 {\n", Expect: "O20.9"},
	)
	// ---- deep freshness of handed-over messages (O2.5 / O4.12 / O1.11)
	addVariants(
		Variant{Name: "benign: local watermark fan-out builds a complete fresh literal instead of proto.Clone", Property: "C04", File: pst, Benign: true,
			Old: "\t\t\t\t\t// Clone the message for each recipient to prevent shared mutation\n\t\t\t\t\tclonedResp := proto.Clone(msg.Resp).(*adminservice.StreamWorkflowReplicationMessagesResponse)\n", New: "\t\t\t\t\t// A fresh message for each recipient to prevent shared mutation\n\t\t\t\t\tclonedResp := &adminservice.StreamWorkflowReplicationMessagesResponse{\n\t\t\t\t\t\tAttributes: &adminservice.StreamWorkflowReplicationMessagesResponse_Messages{\n\t\t\t\t\t\t\tMessages: &replicationv1.WorkflowReplicationMessages{\n\t\t\t\t\t\t\t\tExclusiveHighWatermark: attr.Messages.ExclusiveHighWatermark,\n\t\t\t\t\t\t\t\tPriority:               attr.Messages.Priority,\n\t\t\t\t\t\t\t},\n\t\t\t\t\t\t},\n\t\t\t\t\t}\n"},
		Variant{Name: "benign: same edit seen by C02", Property: "C02", File: pst, Benign: true,
			Old: "\t\t\t\t\t// Clone the message for each recipient to prevent shared mutation\n\t\t\t\t\tclonedResp := proto.Clone(msg.Resp).(*adminservice.StreamWorkflowReplicationMessagesResponse)\n", New: "\t\t\t\t\t// A fresh message for each recipient to prevent shared mutation\n\t\t\t\t\tclonedResp := &adminservice.StreamWorkflowReplicationMessagesResponse{\n\t\t\t\t\t\tAttributes: &adminservice.StreamWorkflowReplicationMessagesResponse_Messages{\n\t\t\t\t\t\t\tMessages: &replicationv1.WorkflowReplicationMessages{\n\t\t\t\t\t\t\t\tExclusiveHighWatermark: attr.Messages.ExclusiveHighWatermark,\n\t\t\t\t\t\t\t\tPriority:               attr.Messages.Priority,\n\t\t\t\t\t\t\t},\n\t\t\t\t\t\t},\n\t\t\t\t\t}\n"},
		Variant{Name: "benign: same edit seen by C01", Property: "C01", File: pst, Benign: true,
			Old: "\t\t\t\t\t// Clone the message for each recipient to prevent shared mutation\n\t\t\t\t\tclonedResp := proto.Clone(msg.Resp).(*adminservice.StreamWorkflowReplicationMessagesResponse)\n", New: "\t\t\t\t\t// A fresh message for each recipient to prevent shared mutation\n\t\t\t\t\tclonedResp := &adminservice.StreamWorkflowReplicationMessagesResponse{\n\t\t\t\t\t\tAttributes: &adminservice.StreamWorkflowReplicationMessagesResponse_Messages{\n\t\t\t\t\t\t\tMessages: &replicationv1.WorkflowReplicationMessages{\n\t\t\t\t\t\t\t\tExclusiveHighWatermark: attr.Messages.ExclusiveHighWatermark,\n\t\t\t\t\t\t\t\tPriority:               attr.Messages.Priority,\n\t\t\t\t\t\t\t},\n\t\t\t\t\t\t},\n\t\t\t\t\t}\n"},
	)
	// ---- namespace translator method gate (O12.8)
	addVariants(
		Variant{Name: "benign: namespace translator skips GetSystemInfo / GetClusterInfo, which carry no namespace in either service", Property: "C12", File: "seeded-benign/C12-method-gate-cluster-scoped-only.diff", Benign: true,
			Patch: "seeded-benign/C12-method-gate-cluster-scoped-only.diff"},
	)
	// ---- translator list helper (O12.5 / O14.4 follow a MatchMethod filter helper; the in-place form is O12.6 / O13.7 / O14.7)
	addVariants(
		Variant{Name: "benign: per-call MatchMethod filtering moved into a helper that returns a fresh slice", Property: "C12", File: "seeded-benign/C13-matching-helper-fresh-slice.diff", Benign: true,
			Patch: "seeded-benign/C13-matching-helper-fresh-slice.diff"},
		Variant{Name: "benign: same patch seen by C13", Property: "C13", File: "seeded-benign/C13-matching-helper-fresh-slice.diff", Benign: true,
			Patch: "seeded-benign/C13-matching-helper-fresh-slice.diff"},
		Variant{Name: "benign: same patch seen by C14", Property: "C14", File: "seeded-benign/C13-matching-helper-fresh-slice.diff", Benign: true,
			Patch: "seeded-benign/C13-matching-helper-fresh-slice.diff"},
	)
	// ---- single-namespace guard of the search-attribute translator (O14.9)
	addVariants(
		Variant{Name: "benign: the multiple-namespace guard written as >= 2 on a local", Property: "C14", File: "proxy/cluster_connection.go", Benign: true,
			Old: "\t\tif c.saTranslations.LenNamespaces() > 1 {\n", New: "\t\tif c.saTranslations.LenNamespaces() >= 2 {\n"},
		Variant{Name: "the multiple-namespace guard only logs", Property: "C14", File: "proxy/cluster_connection.go",
			Old: "\t\tif c.saTranslations.LenNamespaces() > 1 {\n\t\t\tpanic(\"multiple namespace search attribute mappings are not supported\")\n\t\t}\n", New: "\t\tif c.saTranslations.LenNamespaces() > 1 {\n\t\t\tc.loggers.Get(LogClusterConnection).Warn(\"multiple namespace search attribute mappings are not supported\")\n\t\t}\n", Expect: "O14.9"},
		Variant{Name: "benign: FlattenMaps drops namespaces without field mappings (fewer matchers than the guard counts)", Property: "C14", File: "config/config.go", Benign: true,
			Old: "\t\traw[ns] = mappings.AsMap()\n", New: "\t\tif mappings.Len() > 0 {\n\t\t\traw[ns] = mappings.AsMap()\n\t\t}\n"},
		Variant{Name: "FlattenMaps adds a catch-all entry next to each namespace", Property: "C14", File: "config/config.go",
			Old: "\t\traw[ns] = mappings.AsMap()\n", New: "\t\traw[ns] = mappings.AsMap()\n\t\traw[\"*\"] = mappings.AsMap()\n", Expect: "O14.9"},
	)
	// ---- the ACL interceptor's lists are the policy's (O15.2 / O16.9)
	addVariants(
		Variant{Name: "benign: namespace allow-list de-duplicated by a helper before it reaches the interceptor", Property: "C16", File: "seeded-benign/C16-allow-list-deduplicated.diff", Benign: true,
			Patch: "seeded-benign/C16-allow-list-deduplicated.diff"},
		Variant{Name: "benign: same patch seen by C15", Property: "C15", File: "seeded-benign/C16-allow-list-deduplicated.diff", Benign: true,
			Patch: "seeded-benign/C16-allow-list-deduplicated.diff"},
	)
	// ---- all-or-nothing stream reporter (O20.11)
	addVariants(
		Variant{Name: "benign: the gauge is driven by the reporter callback, observer first (the repaired form of seed C20-f)", Property: "C20", File: "seeded-benign/C20-gauge-driven-by-reporter-observer-first.diff", Benign: true,
			Patch: "seeded-benign/C20-gauge-driven-by-reporter-observer-first.diff"},
		Variant{Name: "handler's gauge Dec is no longer deferred", Property: "C20", File: "proxy/adminservice.go",
			Old: "\tstreamsActiveGauge.Inc()\n\tdefer streamsActiveGauge.Dec()\n", New: "\tstreamsActiveGauge.Inc()\n", Expect: "O20.11"},
	)
	// ---- mutants of the sweep (tools/mutsweep.py) that no rule reported; each is now reported by the rule named
	addVariants(
		Variant{Name: "mutant: clamp applied whenever a source high watermark is known (`||` for `&&`)", Property: "C01", File: "proxy/proxy_streams.go",
			Old: "\t\t\t\t\tif lastExclusiveHighOriginal > 0 && min > lastExclusiveHighOriginal {\n", New: "\t\t\t\t\tif lastExclusiveHighOriginal > 0 || min > lastExclusiveHighOriginal {\n", Expect: "O1.1"},
		Variant{Name: "mutant: same mutation seen by C03", Property: "C03", File: "proxy/proxy_streams.go",
			Old: "\t\t\t\t\tif lastExclusiveHighOriginal > 0 && min > lastExclusiveHighOriginal {\n", New: "\t\t\t\t\tif lastExclusiveHighOriginal > 0 || min > lastExclusiveHighOriginal {\n", Expect: "O3.2"},
		Variant{Name: "mutant: minimum loop takes a value only under `first && wm < min`", Property: "C01", File: "proxy/proxy_streams.go",
			Old: "\t\t\t\t\tif first || wm < min {\n", New: "\t\t\t\t\tif first && wm < min {\n", Expect: "O1.1"},
		Variant{Name: "mutant: same mutation seen by C03", Property: "C03", File: "proxy/proxy_streams.go",
			Old: "\t\t\t\t\tif first || wm < min {\n", New: "\t\t\t\t\tif first && wm < min {\n", Expect: "O3.1"},
		Variant{Name: "mutant: per-source maximum updated only under `!ok && task > current`", Property: "C05", File: "proxy/proxy_streams.go",
			Old: "\t\tif current, ok := result[m.sourceShard]; !ok || m.sourceTask > current {\n", New: "\t\tif current, ok := result[m.sourceShard]; !ok && m.sourceTask > current {\n", Expect: "O5.4"},
		Variant{Name: "mutant: lastSentMin no longer recorded after a Send", Property: "C03", File: "proxy/proxy_streams.go",
			Old: "\t\t\t\t\tr.lastSentMin = min\n", New: "\t\t\t\t\t\n", Expect: "O3.3"},
		Variant{Name: "mutant: clamp bound no longer recorded for a batch", Property: "C03", File: "proxy/proxy_streams.go",
			Old: "\t\t\tr.lastExclusiveHighOriginal = attr.Messages.ExclusiveHighWatermark\n", New: "\t\t\t\n", Expect: "O3.2"},
		Variant{Name: "mutant: ack retry loop forgets to mark a delivered source", Property: "C01", File: "proxy/proxy_streams.go",
			Old: "\t\t\t\t\t\t\tsent[srcShard] = true\n\t\t\t\t\t\t\tnumRemaining--\n\t\t\t\t\t\t\tprogress = true\n\t\t\t\t\t\t\t// record last ack per source shard after forwarding\n", New: "\t\t\t\t\t\t\t\n\t\t\t\t\t\t\tnumRemaining--\n\t\t\t\t\t\t\tprogress = true\n\t\t\t\t\t\t\t// record last ack per source shard after forwarding\n", Expect: "O1.3"},
		Variant{Name: "mutant: growth falls back to capacity 1 whenever the doubled capacity is not 0", Property: "C05", File: "proxy/proxy_streams.go",
			Old: "\tif newCap == 0 {\n", New: "\tif newCap != 0 {\n", Expect: "O5.6"},
		Variant{Name: "mutant: start id set when the buffer is not empty", Property: "C05", File: "proxy/proxy_streams.go",
			Old: "\tif b.size == 0 {\n\t\tb.startProxyID = proxyID\n", New: "\tif b.size != 0 {\n\t\tb.startProxyID = proxyID\n", Expect: "O5.7"},
		Variant{Name: "mutant: start id never set", Property: "C05", File: "proxy/proxy_streams.go",
			Old: "\t\tb.startProxyID = proxyID\n", New: "\t\t\n", Expect: "O5.7"},
		Variant{Name: "mutant: AggregateUpTo returns nothing for a non-empty buffer", Property: "C05", File: "proxy/proxy_streams.go",
			Old: "\tif b.size == 0 {\n\t\treturn result, 0\n", New: "\tif b.size != 0 {\n\t\treturn result, 0\n", Expect: "O5.8"},
		Variant{Name: "mutant: AggregateUpTo withholds the entry whose id equals the watermark", Property: "C05", File: "proxy/proxy_streams.go",
			Old: "\tif watermark < b.startProxyID {\n", New: "\tif watermark <= b.startProxyID {\n", Expect: "O5.8"},
		Variant{Name: "mutant: watermark-only batch takes the task branch (last element of an empty slice)", Property: "C02", File: "proxy/proxy_streams.go",
			Old: "\t\t\tif len(m.Messages.ReplicationTasks) > 0 {\n", New: "\t\t\tif len(m.Messages.ReplicationTasks) >= 0 {\n", Expect: "O2.10"},
		Variant{Name: "mutant: RawTaskInfo.TaskId rewritten only when RawTaskInfo is nil", Property: "C02", File: "proxy/proxy_streams.go",
			Old: "\t\t\t\t\tif t.RawTaskInfo != nil {\n", New: "\t\t\t\t\tif t.RawTaskInfo == nil {\n", Expect: "O2.3"},
		Variant{Name: "mutant: receiver dereferences a failed type assertion's value", Property: "C02", File: "proxy/proxy_streams.go",
			Old: "\t\tif attr, ok := resp.GetAttributes().(*adminservice.StreamWorkflowReplicationMessagesResponse_Messages); ok && attr.Messages != nil {\n", New: "\t\tif attr, ok := resp.GetAttributes().(*adminservice.StreamWorkflowReplicationMessagesResponse_Messages); ok || attr.Messages != nil {\n", Expect: "O2.11"},
		Variant{Name: "mutant: receiver Run returns without waiting for its workers", Property: "C08", File: "proxy/proxy_streams.go",
			Old: "\twg.Wait()\n", New: "\t\n", Expect: "O8.15"},
		Variant{Name: "mutant: receive worker never calls Done", Property: "C08", File: "proxy/proxy_streams.go",
			Old: "\t\t\twg.Done()\n\t\t}()\n\t\t_ = r.recvReplicationMessages(sourceStreamClient, shutdownChan)\n", New: "\t\t\t\n\t\t}()\n\t\t_ = r.recvReplicationMessages(sourceStreamClient, shutdownChan)\n", Expect: "O8.15"},
		Variant{Name: "mutant: receiver's stream context is never cancelled", Property: "C08", File: "proxy/proxy_streams.go",
			Old: "\tdefer cancel()\n", New: "\t\n", Expect: "O8.16"},
		Variant{Name: "mutant: sender Run returns without closing its delivery channel", Property: "C03", File: "proxy/proxy_streams.go",
			Old: "\tclose(s.sendMsgChan)\n", New: "\t\n", Expect: "O3.10"},
		Variant{Name: "mutant: NotifyNewTargetShard no longer replays the pending watermark", Property: "C03", File: "proxy/proxy_streams.go",
			Old: "\tr.sendPendingWatermarkToShard(targetShardID)\n", New: "\t\n", Expect: "O3.11"},
		Variant{Name: "mutant: forwarder starts its relays without counting them", Property: "C06", File: "proxy/admin_stream_transfer.go",
			Old: "\twg.Add(2)\n\tgo f.forwardAcks(&wg)\n", New: "\t\n\tgo f.forwardAcks(&wg)\n", Expect: "O6.12"},
		Variant{Name: "mutant: MergeRemoteState forgets the decoded state", Property: "C09", File: "proxy/shard_manager.go",
			Old: "\t\tsd.manager.remoteNodeStates[state.NodeName] = state\n", New: "\t\t\n", Expect: "O9.11"},
		Variant{Name: "mutant: release not announced to the peers", Property: "C09", File: "proxy/shard_manager.go",
			Old: "\t\tsm.broadcastShardChange(\"unregister\", clientShardID)\n", New: "\t\t\n", Expect: "O9.12"},
		Variant{Name: "mutant: UnregisterShard keeps the claim", Property: "C09", File: "proxy/shard_manager.go",
			Old: "\t\tdelete(sm.localShards, key)\n", New: "\t\t\n", Expect: "O9.12"},
		Variant{Name: "mutant: remote forward attempted only without a memberlist", Property: "C09", File: "proxy/shard_manager.go",
			Old: "\tif sm.memberlistConfig != nil {\n\t\tif owner, ok := sm.getShardOwner(targetShard); ok && owner != sm.GetNodeName() {\n", New: "\tif sm.memberlistConfig == nil {\n\t\tif owner, ok := sm.getShardOwner(targetShard); ok && owner != sm.GetNodeName() {\n", Expect: "O9.13"},
		Variant{Name: "mutant: local shard-change callback no longer replays", Property: "C03", File: "proxy/shard_manager.go",
			Old: "\t\t\tsm.notifyReceiversOfNewShard(shard)\n\t\t}\n\t\tif sm.intraMgr != nil {\n\t\t\tsm.intraMgr.Notify()\n\t\t}\n\t})\n\n", New: "\t\t\t\n\t\t}\n\t\tif sm.intraMgr != nil {\n\t\t\tsm.intraMgr.Notify()\n\t\t}\n\t})\n\n", Expect: "O3.11"},
	)
	// ---- behaviour-preserving forms of the code the sweep's rules read
	addVariants(
		Variant{Name: "benign: AggregateUpTo tests emptiness and the watermark in one condition", Property: "C05", File: pst, Benign: true,
			Old: "\tif b.size == 0 {\n\t\treturn result, 0\n\t}\n\tif watermark < b.startProxyID {\n\t\treturn result, 0\n\t}\n", New: "\tif b.size == 0 || watermark < b.startProxyID {\n\t\treturn result, 0\n\t}\n"},
		Variant{Name: "benign: clamp test evaluated into a local first", Property: "C03", File: pst, Benign: true,
			Old: "\t\t\t\t\tif lastExclusiveHighOriginal > 0 && min > lastExclusiveHighOriginal {\n", New: "\t\t\t\t\tif exceeds := min > lastExclusiveHighOriginal; lastExclusiveHighOriginal > 0 && exceeds {\n"},
		Variant{Name: "benign: same edit seen by C01", Property: "C01", File: pst, Benign: true,
			Old: "\t\t\t\t\tif lastExclusiveHighOriginal > 0 && min > lastExclusiveHighOriginal {\n", New: "\t\t\t\t\tif exceeds := min > lastExclusiveHighOriginal; lastExclusiveHighOriginal > 0 && exceeds {\n"},
		Variant{Name: "benign: SetLocalAckChan releases its lock explicitly instead of with a defer", Property: "C08", File: shm, Benign: true,
			Old: "\tsm.localAckChannelsMu.Lock()\n\tdefer sm.localAckChannelsMu.Unlock()\n\tsm.localAckChannels[shardID] = ackChan\n", New: "\tsm.localAckChannelsMu.Lock()\n\tsm.localAckChannels[shardID] = ackChan\n\tsm.localAckChannelsMu.Unlock()\n"},
		Variant{Name: "benign: receive worker defers Done and the latch separately", Property: "C08", File: pst, Benign: true,
			Old: "\tgo func() {\n\t\tdefer func() {\n\t\t\tshutdownChan.Shutdown()\n\t\t\twg.Done()\n\t\t}()\n\t\t_ = r.recvReplicationMessages(sourceStreamClient, shutdownChan)\n", New: "\tgo func() {\n\t\tdefer wg.Done()\n\t\tdefer shutdownChan.Shutdown()\n\t\t_ = r.recvReplicationMessages(sourceStreamClient, shutdownChan)\n"},
		Variant{Name: "benign: same edit seen by C04 (O4.2 accepts a direct deferred Shutdown)", Property: "C04", File: pst, Benign: true,
			Old: "\tgo func() {\n\t\tdefer func() {\n\t\t\tshutdownChan.Shutdown()\n\t\t\twg.Done()\n\t\t}()\n\t\t_ = r.recvReplicationMessages(sourceStreamClient, shutdownChan)\n", New: "\tgo func() {\n\t\tdefer wg.Done()\n\t\tdefer shutdownChan.Shutdown()\n\t\t_ = r.recvReplicationMessages(sourceStreamClient, shutdownChan)\n"},
		Variant{Name: "benign: last task read through a length local", Property: "C02", File: pst, Benign: true,
			Old: "\t\t\t\tproxyExclusiveHigh = m.Messages.ReplicationTasks[len(m.Messages.ReplicationTasks)-1].SourceTaskId + 1\n", New: "\t\t\t\tnTasks := len(m.Messages.ReplicationTasks)\n\t\t\t\tproxyExclusiveHigh = m.Messages.ReplicationTasks[nTasks-1].SourceTaskId + 1\n"},
		Variant{Name: "benign: forward decision with the manager test first", Property: "C09", File: shm, Benign: true,
			Old: "\tif sm.memberlistConfig != nil {\n\t\tif owner, ok := sm.getShardOwner(targetShard); ok && owner != sm.GetNodeName() {\n\t\t\tif addr, found := sm.GetProxyAddress(owner); found {\n\t\t\t\tif mgr := sm.GetIntraProxyManager(); mgr != nil {\n", New: "\tif mgr := sm.GetIntraProxyManager(); mgr != nil && sm.memberlistConfig != nil {\n\t\tif owner, ok := sm.getShardOwner(targetShard); ok && owner != sm.GetNodeName() {\n\t\t\tif addr, found := sm.GetProxyAddress(owner); found {\n\t\t\t\t{\n"},
	)
	// ---- relay loops: ending the loop for a reason is not a bypass
	addVariants(
		Variant{Name: "benign: sender re-checks its latch after taking a message", Property: "C02", File: pst, Benign: true,
			Old: "\t\t\tif !ok {\n\t\t\t\treturn nil\n\t\t\t}\n\t\t\ts.logger.Debug(fmt.Sprintf(\"Sender received ReplicationTasks: routed.Resp=%p\", routed.Resp)", New: "\t\t\tif !ok {\n\t\t\t\treturn nil\n\t\t\t}\n\t\t\tif shutdownChan.IsShutdown() {\n\t\t\t\treturn nil\n\t\t\t}\n\t\t\ts.logger.Debug(fmt.Sprintf(\"Sender received ReplicationTasks: routed.Resp=%p\", routed.Resp)"},
		Variant{Name: "benign: same edit seen by C03", Property: "C03", File: pst, Benign: true,
			Old: "\t\t\tif !ok {\n\t\t\t\treturn nil\n\t\t\t}\n\t\t\ts.logger.Debug(fmt.Sprintf(\"Sender received ReplicationTasks: routed.Resp=%p\", routed.Resp)", New: "\t\t\tif !ok {\n\t\t\t\treturn nil\n\t\t\t}\n\t\t\tif shutdownChan.IsShutdown() {\n\t\t\t\treturn nil\n\t\t\t}\n\t\t\ts.logger.Debug(fmt.Sprintf(\"Sender received ReplicationTasks: routed.Resp=%p\", routed.Resp)"},
		Variant{Name: "benign: receiver loop written with an explicit break on the latch", Property: "C02", File: pst, Benign: true,
			Old: "\tfor !shutdownChan.IsShutdown() {\n\t\tresp, err := sourceStreamClient.Recv()\n", New: "\tfor {\n\t\tif shutdownChan.IsShutdown() {\n\t\t\tbreak\n\t\t}\n\t\tresp, err := sourceStreamClient.Recv()\n"},
	)
	// ---- same-typed shard ids in the wrong role (O8.17 / O1.13 / O3.14 / O5.9)
	addVariants(
		Variant{Name: "receiver registers its ack channel under its target shard", Property: "C08", File: pst,
			Old: "\t\tr.shardManager.SetLocalAckChan(r.sourceShardID, r.ackChan)\n", New: "\t\tr.shardManager.SetLocalAckChan(r.targetShardID, r.ackChan)\n", Expect: "O8.17"},
		Variant{Name: "task message attributed to the receiver's target shard", Property: "C01", File: pst,
			Old: "\t\t\t\t\tmsg := RoutedMessage{\n\t\t\t\t\t\tSourceShard: r.sourceShardID,\n", New: "\t\t\t\t\tmsg := RoutedMessage{\n\t\t\t\t\t\tSourceShard: r.targetShardID,\n", Expect: "O1.13"},
		Variant{Name: "intra-proxy sender registered with (source, target) swapped", Property: "C08", File: ipr,
			Old: "\ts.shardManager.GetIntraProxyManager().RegisterSender(s.peerNodeName, s.targetShardID, s.sourceShardID, s)\n", New: "\ts.shardManager.GetIntraProxyManager().RegisterSender(s.peerNodeName, s.sourceShardID, s.targetShardID, s)\n", Expect: "O8.17"},
	)
	// ---- swallowed errors and retained state (general rules)
	addVariants(
		Variant{Name: "blob repair error logged and dropped", Property: "C17", File: refl,
			Old: "\t\t\tlogger.Error(\"failed to repair invalid utf-8 in history event blob\", tag.Error(err))\n\t\t\tmetrics.TranslationErrors.WithLabelValues(metrics.UTF8RepairTranslationKind, metrics.HistoryBlobMessageType).Inc()\n\t\t\treturn blob, matched, changed, err\n", New: "\t\t\tlogger.Error(\"failed to repair invalid utf-8 in history event blob\", tag.Error(err))\n\t\t\tmetrics.TranslationErrors.WithLabelValues(metrics.UTF8RepairTranslationKind, metrics.HistoryBlobMessageType).Inc()\n\t\t\treturn blob, matched, changed, nil\n", Expect: "O17.8"},
		Variant{Name: "mux provider treats a failed session setup as done", Property: "C19", File: "transport/mux/receiver.go",
			Old: "\t\ttlsConfig, err := encryption.GetServerTLSConfig(tlsCfg, logger)\n\t\tif err != nil {\n\t\t\treturn nil, err\n\t\t}\n", New: "\t\ttlsConfig, err := encryption.GetServerTLSConfig(tlsCfg, logger)\n\t\tif err != nil {\n\t\t\treturn nil, nil\n\t\t}\n", Expect: "O19.8"},
		Variant{Name: "access-control interceptor remembers refused methods", Property: "C15", File: "seeded/C15-d/patch.diff", Expect: "O15.7",
			Patch: "seeded/C15-d/patch.diff"},
	)
}
