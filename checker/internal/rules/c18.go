package rules

import (
	"fmt"
	"go/ast"
	"go/constant"
	"go/token"
	"go/types"
	"sort"
	"strings"

	"golang.org/x/tools/go/packages"
	"golang.org/x/tools/go/ssa"

	"s2scheck/internal/flow"
	"s2scheck/internal/report"
	"s2scheck/internal/typegraph"
)

func init() { Registry["C18"] = c18 }

const compatPkg = modPath + "/proto/compat"

func isLegacyFailure(n *types.Named) bool {
	return n.Obj().Name() == "Failure" && n.Obj().Pkg() != nil && strings.HasSuffix(n.Obj().Pkg().Path(), "proto/1_22/api/failure/v1")
}

// failurePaths: side A - all structural paths from t to a *Failure field in the legacy schema.
func failurePaths(w *typegraph.Walker, t types.Type, path []string, onpath map[*types.Named]bool, out *[]string) {
	t = types.Unalias(t)
	switch tt := t.(type) {
	case *types.Pointer:
		failurePaths(w, tt.Elem(), path, onpath, out)
	case *types.Slice:
		failurePaths(w, tt.Elem(), append(path, "[]"), onpath, out)
	case *types.Array:
		failurePaths(w, tt.Elem(), append(path, "[]"), onpath, out)
	case *types.Map:
		failurePaths(w, tt.Elem(), append(path, "[]"), onpath, out)
	case *types.Named:
		if isLegacyFailure(tt) {
			*out = append(*out, strings.Join(path, "/"))
			return
		}
		if onpath[tt] {
			return
		}
		switch u := tt.Underlying().(type) {
		case *types.Struct:
			onpath[tt] = true
			defer delete(onpath, tt)
			for i := 0; i < u.NumFields(); i++ {
				f := u.Field(i)
				if !f.Exported() || strings.HasPrefix(f.Name(), "XXX_") {
					continue
				}
				p := append(append([]string{}, path...), f.Name())
				failurePaths(w, f.Type(), p, onpath, out)
			}
		case *types.Interface:
			if tt.Obj().Pkg() == nil {
				return
			}
			for _, impl := range w.ImplsOf(tt) {
				failurePaths(w, impl, append(append([]string{}, path...), "<"+impl.Obj().Name()+">"), onpath, out)
			}
		}
	}
}

// genInterp: side B - abstract interpretation of the generated visitor's statement forms.
type genInterp struct {
	pk       *packages.Package
	problems []string
}

func (g *genInterp) pathOf(e ast.Expr, env map[string][]string) ([]string, bool) {
	switch x := e.(type) {
	case *ast.Ident:
		p, ok := env[x.Name]
		return p, ok
	case *ast.CallExpr:
		sel, ok := x.Fun.(*ast.SelectorExpr)
		if !ok || len(x.Args) != 0 {
			return nil, false
		}
		id, ok := sel.X.(*ast.Ident)
		if !ok {
			return nil, false
		}
		base, ok := env[id.Name]
		if !ok || !strings.HasPrefix(sel.Sel.Name, "Get") {
			return nil, false
		}
		// the getter must be the generated getter of the field of that name
		if fo, ok := g.pk.TypesInfo.Uses[sel.Sel].(*types.Func); !ok || fo.Type().(*types.Signature).Recv() == nil {
			return nil, false
		}
		return append(append([]string{}, base...), strings.TrimPrefix(sel.Sel.Name, "Get")), true
	case *ast.SelectorExpr:
		id, ok := x.X.(*ast.Ident)
		if !ok {
			return nil, false
		}
		base, ok := env[id.Name]
		if !ok {
			return nil, false
		}
		if v, ok := g.pk.TypesInfo.Uses[x.Sel].(*types.Var); !ok || !v.IsField() {
			return nil, false
		}
		return append(append([]string{}, base...), x.Sel.Name), true
	}
	return nil, false
}

func copyEnv(env map[string][]string) map[string][]string {
	out := make(map[string][]string, len(env)+1)
	for k, v := range env {
		out[k] = v
	}
	return out
}

func (g *genInterp) pos(n ast.Node) string { return g.pk.Fset.Position(n.Pos()).String() }

func (g *genInterp) run(stmts []ast.Stmt, env map[string][]string, out map[string]bool) {
	for _, s := range stmts {
		switch st := s.(type) {
		case *ast.AssignStmt:
			if len(st.Lhs) == 1 && len(st.Rhs) == 1 {
				if id, ok := st.Lhs[0].(*ast.Ident); ok {
					if p, ok := g.pathOf(st.Rhs[0], env); ok {
						env[id.Name] = p
						continue
					}
				}
			}
			// bookkeeping of ret / retErr inside the if-body is handled with the IfStmt
			g.problems = append(g.problems, "unrecognised assignment at "+g.pos(st))
		case *ast.RangeStmt:
			p, ok := g.pathOf(st.X, env)
			v, okv := st.Value.(*ast.Ident)
			if !ok || !okv {
				g.problems = append(g.problems, "unrecognised range at "+g.pos(st))
				continue
			}
			e2 := copyEnv(env)
			e2[v.Name] = append(append([]string{}, p...), "[]")
			g.run(st.Body.List, e2, out)
		case *ast.TypeSwitchStmt:
			as, ok := st.Assign.(*ast.AssignStmt)
			if !ok || len(as.Lhs) != 1 || len(as.Rhs) != 1 {
				g.problems = append(g.problems, "unrecognised type switch at "+g.pos(st))
				continue
			}
			v := as.Lhs[0].(*ast.Ident).Name
			ta, ok := as.Rhs[0].(*ast.TypeAssertExpr)
			if !ok {
				g.problems = append(g.problems, "unrecognised type switch at "+g.pos(st))
				continue
			}
			p, ok := g.pathOf(ta.X, env)
			if !ok {
				g.problems = append(g.problems, "unrecognised type switch subject at "+g.pos(st))
				continue
			}
			for _, cl := range st.Body.List {
				cc := cl.(*ast.CaseClause)
				for _, te := range cc.List {
					pt, ok := types.Unalias(g.pk.TypesInfo.TypeOf(te)).(*types.Pointer)
					if !ok {
						g.problems = append(g.problems, "non-pointer case at "+g.pos(te))
						continue
					}
					nt, ok := types.Unalias(pt.Elem()).(*types.Named)
					if !ok {
						continue
					}
					e2 := copyEnv(env)
					e2[v] = append(append([]string{}, p...), "<"+nt.Obj().Name()+">")
					g.run(cc.Body, e2, out)
				}
			}
		case *ast.IfStmt:
			done := false
			if as, ok := st.Init.(*ast.AssignStmt); ok && len(as.Rhs) == 1 {
				if call, ok := as.Rhs[0].(*ast.CallExpr); ok {
					if id, ok := call.Fun.(*ast.Ident); ok && len(call.Args) == 1 {
						if fo, ok := g.pk.TypesInfo.Uses[id].(*types.Func); ok && fo.Name() == "repairInvalidUTF8InFailure" && fo.Pkg().Path() == compatPkg {
							if p, ok := g.pathOf(call.Args[0], env); ok {
								// the result must be folded into ret / retErr: cond is `err != nil || changed`
								out[strings.Join(p, "/")] = true
								if !g.foldsResult(st, as) {
									g.problems = append(g.problems, "repair result not folded into (ret, retErr) at "+g.pos(st))
								}
								done = true
							}
						}
					}
				}
			}
			if !done {
				g.problems = append(g.problems, "unrecognised if statement at "+g.pos(st))
			}
		default:
			g.problems = append(g.problems, fmt.Sprintf("unrecognised statement %T at %s", s, g.pos(s)))
		}
	}
}

// foldsResult: `if changed, err := repair(x); err != nil || changed { ret = ret || changed; if err != nil { retErr = err } }`
func (g *genInterp) foldsResult(st *ast.IfStmt, as *ast.AssignStmt) bool {
	if len(as.Lhs) != 2 {
		return false
	}
	changed, _ := as.Lhs[0].(*ast.Ident)
	errv, _ := as.Lhs[1].(*ast.Ident)
	if changed == nil || errv == nil {
		return false
	}
	setsRet, setsErr := false, false
	ast.Inspect(st.Body, func(n ast.Node) bool {
		a, ok := n.(*ast.AssignStmt)
		if !ok || len(a.Lhs) != 1 || len(a.Rhs) != 1 {
			return true
		}
		l, _ := a.Lhs[0].(*ast.Ident)
		if l == nil {
			return true
		}
		if l.Name == "ret" {
			if bo, ok := a.Rhs[0].(*ast.BinaryExpr); ok && bo.Op == token.LOR {
				if r, ok := bo.Y.(*ast.Ident); ok && r.Name == changed.Name {
					setsRet = true
				}
			}
		}
		if l.Name == "retErr" {
			if r, ok := a.Rhs[0].(*ast.Ident); ok && r.Name == errv.Name {
				setsErr = true
			}
		}
		return true
	})
	// the condition must be true whenever changed or err != nil
	condOK := false
	if bo, ok := st.Cond.(*ast.BinaryExpr); ok && bo.Op == token.LOR {
		txt := func(e ast.Expr) string { return types.ExprString(e) }
		a, b := txt(bo.X), txt(bo.Y)
		if (a == errv.Name+" != nil" && b == changed.Name) || (b == errv.Name+" != nil" && a == changed.Name) {
			condOK = true
		}
	}
	return setsRet && setsErr && condOK
}

func c18(c *Ctx) (*report.Result, error) {
	res := newResult("C18")
	res.Level = "translation_validation"
	res.RuleDoc["O18.1"] = "schema coverage: for every legacy root type of the conversion tables, every structural path to a *failure.Failure (enumerated from the proto/1_22 struct types) is a path on which the generated RepairInvalidUTF8 calls repairInvalidUTF8InFailure"
	res.RuleDoc["O18.2"] = "no phantom path: the generated visitor repairs no path that the schema does not have (guards the interpreter of the generated code)"
	res.RuleDoc["O18.3"] = "the conversion tables map each current type to the same-named legacy type and return a fresh zero value"
	res.RuleDoc["O18.4"] = "repairInvalidUTF8InFailure rewrites Message with strings.ToValidUTF8(same field, U+FFFD) along the Cause chain up to maxFailureDepth (>= 1) and reports an error when the chain is longer"
	res.RuleDoc["O18.5"] = "convertAndRepairInvalidUTF8 repairs the value it unmarshalled and re-marshals that same value"
	res.Floors["O18.1"] = 100

	pk, err := c.Prog.Pkg("proto/compat")
	if err != nil {
		return res, err
	}
	info := pk.TypesInfo
	w := typegraph.New()
	// ---- conversion tables
	type convCase struct {
		from, to *types.Named
		pos      token.Pos
		fresh    bool
		table    string
	}
	var convs []convCase
	roots := map[*types.Named]bool{}
	for _, tbl := range []string{"adminConvertTo122", "frontendConvertTo122"} {
		fd, _, err := c.Prog.FuncDecl("proto/compat", "", tbl)
		if err != nil {
			res.Undec("O18.3", tbl, "", err.Error())
			continue
		}
		ast.Inspect(fd.Body, func(n ast.Node) bool {
			cc, ok := n.(*ast.CaseClause)
			if !ok || len(cc.List) == 0 {
				return true
			}
			for _, te := range cc.List {
				pt, ok := types.Unalias(info.TypeOf(te)).(*types.Pointer)
				if !ok {
					continue
				}
				from, _ := types.Unalias(pt.Elem()).(*types.Named)
				cv := convCase{from: from, pos: cc.Pos(), table: tbl}
				for _, s := range cc.Body {
					if ret, ok := s.(*ast.ReturnStmt); ok && len(ret.Results) == 2 {
						if u, ok := ret.Results[0].(*ast.UnaryExpr); ok && u.Op == token.AND {
							if cl, ok := u.X.(*ast.CompositeLit); ok {
								cv.fresh = len(cl.Elts) == 0
								cv.to, _ = types.Unalias(info.TypeOf(cl)).(*types.Named)
							}
						}
					}
				}
				convs = append(convs, cv)
			}
			return true
		})
	}
	for _, cv := range convs {
		if cv.from == nil {
			continue
		}
		construct := cv.table + ": " + typegraph.PkgShort(cv.from.Obj().Pkg()) + "." + cv.from.Obj().Name()
		switch {
		case cv.to == nil:
			res.Viol("O18.3", construct, c.Prog.Pos(cv.pos), "the case does not return &LegacyType{}")
		case cv.to.Obj().Name() != cv.from.Obj().Name():
			res.Viol("O18.3", construct, c.Prog.Pos(cv.pos), "mapped to legacy type "+cv.to.Obj().Name()+": the wire bytes would be decoded with the wrong schema")
		case !strings.Contains(cv.to.Obj().Pkg().Path(), "/proto/1_22/") || typegraph.PkgShort(cv.to.Obj().Pkg()) != typegraph.PkgShort(cv.from.Obj().Pkg()):
			res.Viol("O18.3", construct, c.Prog.Pos(cv.pos), "mapped to a type outside the corresponding proto/1_22 package ("+cv.to.Obj().Pkg().Path()+")")
		case !cv.fresh:
			res.Viol("O18.3", construct, c.Prog.Pos(cv.pos), "the legacy value is not a fresh zero value")
		default:
			res.Hold("O18.3", construct, c.Prog.Pos(cv.pos), "-> "+cv.to.Obj().Pkg().Name()+"."+cv.to.Obj().Name())
			roots[cv.to] = true
		}
	}
	res.Floors["O18.3"] = 150
	// further roots: the static argument types of RepairInvalidUTF8 calls elsewhere in the module
	// (history events of decoded blobs)
	for _, f := range c.Prog.RepoFuncs() {
		for _, call := range flow.Calls(f) {
			cc := call.Common()
			if !flow.IsCallTo(cc, compatPkg, "", "RepairInvalidUTF8") || len(cc.Args) != 1 {
				continue
			}
			if mi, ok := cc.Args[0].(*ssa.MakeInterface); ok {
				if nt := typegraph.NamedStruct(mi.X.Type()); nt != nil && strings.Contains(nt.Obj().Pkg().Path(), "/proto/1_22/") {
					roots[nt] = true
					res.Hold("O18.3", "call site root: "+shortFn(f)+" passes "+typegraph.PkgShort(nt.Obj().Pkg())+"."+nt.Obj().Name(), instrPos(c.Prog, call), "added to the roots")
				}
			}
		}
	}

	// ---- side B: the generated visitor
	fd, _, err := c.Prog.FuncDecl("proto/compat", "", "RepairInvalidUTF8")
	if err != nil {
		return res, err
	}
	var sw *ast.TypeSwitchStmt
	for _, s := range fd.Body.List {
		if ts, ok := s.(*ast.TypeSwitchStmt); ok {
			sw = ts
		} else if _, isRet := s.(*ast.ReturnStmt); !isRet {
			res.Undec("O18.2", "RepairInvalidUTF8: top-level statement", c.Prog.Pos(s.Pos()), fmt.Sprintf("unexpected top-level statement %T in the generated visitor", s))
		}
	}
	if sw == nil {
		return res, fmt.Errorf("anchor: RepairInvalidUTF8 has no top-level type switch")
	}
	rootVar := "root"
	if as, ok := sw.Assign.(*ast.AssignStmt); ok {
		if id, ok := as.Lhs[0].(*ast.Ident); ok {
			rootVar = id.Name
		}
	}
	gi := &genInterp{pk: pk}
	gen := map[*types.Named]map[string]bool{}
	for _, cl := range sw.Body.List {
		cc := cl.(*ast.CaseClause)
		for _, te := range cc.List {
			pt, ok := types.Unalias(info.TypeOf(te)).(*types.Pointer)
			if !ok {
				continue
			}
			nt, ok := types.Unalias(pt.Elem()).(*types.Named)
			if !ok {
				continue
			}
			out := map[string]bool{}
			gi.run(cc.Body, map[string][]string{rootVar: {}}, out)
			gen[nt] = out
		}
	}
	for _, p := range gi.problems {
		res.Undec("O18.2", "RepairInvalidUTF8: "+p, "", "the generated visitor contains a statement form the validator does not model; it cannot vouch for the paths below it")
	}

	// ---- side A vs side B
	var rootList []*types.Named
	for r := range roots {
		rootList = append(rootList, r)
	}
	sort.Slice(rootList, func(i, j int) bool { return rootList[i].String() < rootList[j].String() })
	totalA, missing, extra, withFail := 0, 0, 0, 0
	for _, r := range rootList {
		var want []string
		failurePaths(w, r, nil, map[*types.Named]bool{}, &want)
		rname := typegraph.PkgShort(r.Obj().Pkg()) + "." + r.Obj().Name()
		if len(want) == 0 {
			res.Trivial("O18.1", rname)
			if g := gen[r]; len(g) > 0 {
				for p := range g {
					extra++
					res.Viol("O18.2", rname+": "+p, "", "the generated visitor repairs a path the legacy schema does not have")
				}
			}
			continue
		}
		withFail++
		g := gen[r]
		wantSet := map[string]bool{}
		for _, p := range want {
			wantSet[p] = true
			totalA++
			construct := rname + ": " + p
			if g == nil {
				missing++
				res.Viol("O18.1", construct, "", "RepairInvalidUTF8 has no case for this root type: invalid UTF-8 in a failure message at this place is not repaired")
			} else if !g[p] {
				missing++
				res.Viol("O18.1", construct, "", "the generated visitor never reaches this failure: invalid UTF-8 at this place is not repaired")
			} else {
				res.Hold("O18.1", construct, "", "repaired")
			}
		}
		var gk []string
		for p := range g {
			gk = append(gk, p)
		}
		sort.Strings(gk)
		for _, p := range gk {
			if !wantSet[p] {
				extra++
				res.Viol("O18.2", rname+": "+p, "", "the generated visitor repairs a path that the type-derived enumeration does not contain")
			}
		}
	}
	res.Check(extra == 0, "O18.2", "generated paths are schema paths", "", fmt.Sprintf("%d generated cases examined, no phantom path", len(gen)), fmt.Sprintf("%d phantom paths", extra))

	// ---- O18.4 / O18.5
	if f := resolve(c, res, "O18.4", anchor{"proto/compat", "", "repairInvalidUTF8InFailure"}); f != nil {
		checkFailureChainRepair(c, res, f, "O18.4")
	}
	if f := resolve(c, res, "O18.5", anchor{"proto/compat", "", "convertAndRepairInvalidUTF8"}); f != nil {
		checkConvertAndRepairIdentity(c, res, f)
		checkConversionLookups(c, res, f, "O18.3")
	}

	res.Explanation = fmt.Sprintf("Translation validation of the generated visitor proto/compat.RepairInvalidUTF8 (1 program, %d root cases) against the schema it was generated for: side A enumerates, from the proto/1_22 Go struct types, every structural path from each of the %d legacy root types of the conversion tables (read from adminConvertTo122 / frontendConvertTo122) to a *failure.Failure (%d roots have such paths, %d paths); side B abstractly interprets the generated code (getter assignment, range, oneof type switch, wrapper field read, guarded repair call; any other statement fails) and yields the set of paths on which repairInvalidUTF8InFailure is called and folded into the result. A subset of B fails O18.1, B minus A fails O18.2. The hand-written chain repair and the codec's repair entry are checked on SSA.", len(gen), len(roots), withFail, totalA)
	res.Extra["programs"] = 1
	res.Extra["disagreements_checked"] = totalA + len(gen)
	res.Extra["exhaustive"] = true
	res.Extra["schema_paths"] = totalA
	res.Extra["missing"] = missing
	res.Extra["extra"] = extra
	res.Assumptions = []string{"the proto/1_22 Go structs are the v1.22 schema", "generated getters Get<Field> return field <Field>"}
	res.RuleDoc["O18.6"] = "translation, access control and repair keep no memory between messages: no shipped function of the interceptor, proto/compat, auth and collect packages stores into package-level state, receiver fields or sync.Maps after construction - a cache keyed by message type or content makes the treatment of one message depend on the ones before it"
	checkStateless(c, res, "O18.6", []string{"interceptor", "proto/compat", "auth", "collect"}, map[string]string{})
	res.RuleDoc["O18.9"] = "the repair works on the message it was called for: RepairUTF8Codec.Unmarshal hands convertAndRepairInvalidUTF8 the result of data.Materialize() on its own payload, and package compat frees no pooled buffer - bytes read from a buffer that went back to the pool are another RPC's bytes by the time the legacy decode reads them, so a failure message comes back 'repaired' with someone else's text or the repair fails"
	checkCodecPayloadOwned(c, res, "O18.9")
	res.RuleDoc["O18.8"] = "the repair reaches every message that needs it: nothing but the error class gates it in the codec (same analysis as O17.10) - a size or type condition next to IsInvalidUTF8Error leaves whole messages unrepaired, whatever their failure paths"
	checkRepairGate(c, res, "O18.8")
	res.RuleDoc["O18.7"] = "no swallowed error in the files the mechanism lives in: no function returns a nil error on a path on which an error obtained from a call is known to be non-nil (io.EOF from a stream Recv, the normal end of a receive loop, is the one accepted idiom)"
	checkNoSwallowedErrors(c, res, "O18.7", []string{"proto/compat/repair_utf8.go", "proto/compat/codec.go"})
	return res, nil
}

func checkFailureChainRepair(c *Ctx, res *report.Result, f *ssa.Function, rule string) {
	// the carried variable: a phi of the parameter and a GetCause()/Cause of itself
	var carried *ssa.Phi
	for _, b := range f.Blocks {
		for _, ins := range b.Instrs {
			phi, ok := ins.(*ssa.Phi)
			if !ok {
				continue
			}
			hasParam, hasCause := false, false
			for _, e := range phi.Edges {
				if e == ssa.Value(f.Params[0]) {
					hasParam = true
				}
				if call, ok := e.(*ssa.Call); ok && isMethodNamed(&call.Call, "GetCause") && len(call.Call.Args) == 1 && call.Call.Args[0] == ssa.Value(phi) {
					hasCause = true
				}
				if _, fld, ok := flow.FieldLoadOf(e); ok && fld == "Cause" {
					hasCause = true
				}
			}
			if hasParam && hasCause {
				carried = phi
			}
		}
	}
	if !res.Check(carried != nil, rule, "repairInvalidUTF8InFailure: loop follows the Cause chain", fnPos(c.Prog, f), "failure = failure.GetCause()", "the function does not iterate along Cause: nested causes are not repaired") {
		return
	}
	// the store to Message
	stores := 0
	for _, b := range f.Blocks {
		for _, ins := range b.Instrs {
			st, ok := ins.(*ssa.Store)
			if !ok {
				continue
			}
			fa, ok := st.Addr.(*ssa.FieldAddr)
			if !ok {
				continue
			}
			fld := flow.FieldName(fa.X.Type(), fa.Field)
			if fld != "Message" {
				res.Viol(rule, "repairInvalidUTF8InFailure: store to Failure."+fld, instrPos(c.Prog, st), "a field other than Message is written")
				continue
			}
			stores++
			ok2 := fa.X == ssa.Value(carried)
			if call, isC := st.Val.(*ssa.Call); isC && flow.IsCallTo(&call.Call, "strings", "", "ToValidUTF8") {
				src, fld2, okf := flow.FieldLoadOf(call.Call.Args[0])
				if !okf || fld2 != "Message" || src != ssa.Value(carried) {
					// GetMessage(carried)
					if gm, isG := call.Call.Args[0].(*ssa.Call); !isG || !isMethodNamed(&gm.Call, "GetMessage") || gm.Call.Args[0] != ssa.Value(carried) {
						ok2 = false
					}
				}
				if s, isS := flow.ConstString(call.Call.Args[1]); !isS || s != "�" {
					ok2 = false
				}
			} else {
				ok2 = false
			}
			// the rewrite happens exactly when the message is invalid: the store is guarded by an exact
			// validity test of this link's message (utf8.ValidString false, or repaired != original)
			exact := false
			guardTxt := ""
			for _, g := range flow.NormGuards(flow.Guards(st.Block())) {
				guardTxt += g.String() + "; "
				switch x := g.Cond.(type) {
				case *ssa.Call:
					if (flow.IsCallTo(&x.Call, "unicode/utf8", "", "ValidString") || flow.IsCallTo(&x.Call, "unicode/utf8", "", "Valid")) && !g.Side {
						if messageOf(x.Call.Args[0], carried) {
							exact = true
						}
					}
				case *ssa.BinOp:
					if x.Op == token.NEQ && g.Side && types.Identical(x.X.Type(), types.Typ[types.String]) {
						a, b := x.X, x.Y
						isRep := func(v ssa.Value) bool {
							call, ok := v.(*ssa.Call)
							return ok && flow.IsCallTo(&call.Call, "strings", "", "ToValidUTF8") && messageOf(call.Call.Args[0], carried)
						}
						if (isRep(a) && messageOf(b, carried)) || (isRep(b) && messageOf(a, carried)) {
							exact = true
						}
					}
				}
			}
			// ... and by nothing else that looks at the link: a further test of another field of the failure (its
			// encoded attributes, its type) leaves some invalid messages unrepaired
			for _, g := range flow.NormGuards(flow.Guards(st.Block())) {
				var ops []ssa.Value
				switch x := g.Cond.(type) {
				case *ssa.BinOp:
					ops = []ssa.Value{x.X, x.Y}
				case *ssa.Call:
					ops = []ssa.Value{x}
				}
				for _, o := range ops {
					if oc, isC := flow.ResolveLoad(o).(*ssa.Call); isC && len(oc.Call.Args) > 0 && oc.Call.Args[0] == ssa.Value(carried) && !oc.Call.IsInvoke() {
						if sc := flow.StaticCallee(&oc.Call); sc != nil && sc.Name() != "GetMessage" && strings.HasPrefix(sc.Name(), "Get") {
							exact = false
							guardTxt = "the rewrite also depends on " + sc.Name() + "() of the link; " + guardTxt
						}
					}
				}
			}
			res.Check(exact, rule, "repairInvalidUTF8InFailure: a link is rewritten exactly when its message is not valid UTF-8", instrPos(c.Prog, st), "guard: !utf8.ValidString(message)", "the rewrite (and the 'changed' verdict) is guarded by a test that is not an exact validity test of the message ("+guardTxt+"): some invalid messages are left unrepaired, or valid ones are touched")
			// inside the loop: the store's block is dominated by the loop header and can reach it
			inLoop := carried.Block().Dominates(st.Block()) && flow.ReachBlock(st.Block(), carried.Block(), nil)
			res.Check(ok2 && inLoop, rule, "repairInvalidUTF8InFailure: Message = ToValidUTF8(Message, U+FFFD) for the current link", instrPos(c.Prog, st), "ok", "the Message rewrite is not strings.ToValidUTF8 of the same link's Message with U+FFFD inside the loop")
		}
	}
	if stores == 0 {
		res.Viol(rule, "repairInvalidUTF8InFailure: Message is rewritten", fnPos(c.Prog, f), "no store to Failure.Message")
	}
	// bound
	bound := int64(-1)
	for _, b := range f.Blocks {
		if iff := lastIfOf(b); iff != nil {
			if bo, ok := iff.Cond.(*ssa.BinOp); ok && (bo.Op == token.LSS || bo.Op == token.LEQ) {
				if n, ok := flow.ConstInt(bo.Y); ok {
					bound = n
					if bo.Op == token.LEQ {
						bound++
					}
				}
			}
		}
	}
	// trip count: the loop visits exactly as many links as the named depth constant says. The counter is a
	// header phi (constant init, itself + 1); with `counter < K` it visits K - init links, with `<=` one more.
	if fd := f.Syntax(); fd != nil {
		if pk := c.Prog.ByPath[f.Package().Pkg.Path()]; pk != nil {
			ast.Inspect(fd, func(n ast.Node) bool {
				fs, ok := n.(*ast.ForStmt)
				if !ok || fs.Cond == nil {
					return true
				}
				ast.Inspect(fs.Cond, func(m ast.Node) bool {
					be, ok := m.(*ast.BinaryExpr)
					if !ok || (be.Op != token.LSS && be.Op != token.LEQ) {
						return true
					}
					id, ok := be.Y.(*ast.Ident)
					if !ok {
						return true
					}
					cobj, ok := pk.TypesInfo.Uses[id].(*types.Const)
					if !ok {
						return true
					}
					want, exact := constant.Int64Val(cobj.Val())
					if !exact {
						return true
					}
					// SSA side: the compared counter's init and step
					trips := int64(-1)
					step := int64(0)
					for _, b := range f.Blocks {
						iff := lastIfOf(b)
						if iff == nil {
							continue
						}
						bo, ok := iff.Cond.(*ssa.BinOp)
						if !ok || (bo.Op != token.LSS && bo.Op != token.LEQ) {
							continue
						}
						k, okk := flow.ConstInt(bo.Y)
						phi, okp := bo.X.(*ssa.Phi)
						if !okk || !okp || k != want {
							continue
						}
						for _, e := range phi.Edges {
							if i0, isC := flow.ConstInt(e); isC {
								trips = k - i0
								if bo.Op == token.LEQ {
									trips++
								}
							} else if inc, isB := e.(*ssa.BinOp); isB && inc.Op == token.ADD && inc.X == ssa.Value(phi) {
								step, _ = flow.ConstInt(inc.Y)
							}
						}
					}
					if trips < 0 || step == 0 {
						res.Undec(rule, "repairInvalidUTF8InFailure: the loop visits "+cobj.Name()+" links", c.Prog.Pos(fs.Pos()), "loop counter not recognised as a header phi with constant init and step")
						return true
					}
					res.Check(trips == want && step == 1, rule, "repairInvalidUTF8InFailure: the loop visits "+cobj.Name()+" links", c.Prog.Pos(fs.Pos()), fmt.Sprintf("%d iterations, %s = %d", trips, cobj.Name(), want), fmt.Sprintf("the loop visits %d links (step %d) but %s = %d: a chain of exactly %d links is rejected / left unrepaired at its last link", trips, step, cobj.Name(), want, want))
					return true
				})
				return true
			})
		}
	}
	res.Check(bound >= 1, rule, "repairInvalidUTF8InFailure: depth bound >= 1", fnPos(c.Prog, f), fmt.Sprintf("maxFailureDepth = %d", bound), fmt.Sprintf("depth bound is %d: no link would be repaired", bound))
	// leaving the loop with a non-nil remainder returns an error
	okErr := false
	for _, b := range f.Blocks {
		for _, ins := range b.Instrs {
			ret, ok := ins.(*ssa.Return)
			if !ok || flow.IsNilConst(flow.Ret(ret)[1]) {
				continue
			}
			for _, g := range flow.NormGuards(flow.Guards(b)) {
				if bo, ok := g.Cond.(*ssa.BinOp); ok && bo.Op == token.NEQ && g.Side && bo.X == ssa.Value(carried) && flow.IsNilConst(bo.Y) {
					okErr = true
				}
			}
		}
	}
	res.Check(okErr, rule, "repairInvalidUTF8InFailure: a chain longer than the bound is an error", fnPos(c.Prog, f), "non-nil remainder -> error", "a failure chain deeper than the bound is silently left unrepaired")
}

func checkConvertAndRepairIdentity(c *Ctx, res *report.Result, f *ssa.Function) {
	rule := "O18.5"
	rep := flow.FindCalls(f, func(cc *ssa.CallCommon) bool { return flow.IsCallTo(cc, compatPkg, "", "RepairInvalidUTF8") })
	if len(rep) != 1 {
		res.Undec(rule, "convertAndRepairInvalidUTF8: RepairInvalidUTF8 call", fnPos(c.Prog, f), fmt.Sprintf("%d calls", len(rep)))
		return
	}
	arg := flow.Strip(rep[0].Common().Args[0])
	var unm, mar ssa.CallInstruction
	for _, call := range flow.Calls(f) {
		cc := call.Common()
		if cc.IsInvoke() && flow.Strip(cc.Value) == arg {
			switch cc.Method.Name() {
			case "Unmarshal":
				unm = call
			case "Marshal":
				mar = call
			}
		}
	}
	ok := unm != nil && mar != nil && flow.InstrDominates(unm, rep[0]) && flow.InstrDominates(rep[0], mar)
	// data param goes into Unmarshal
	if ok && (len(unm.Common().Args) != 1 || unm.Common().Args[0] != ssa.Value(f.Params[0])) {
		ok = false
	}
	res.Check(ok, rule, "convertAndRepairInvalidUTF8: unmarshal(data) -> repair -> marshal on one legacy value", fnPos(c.Prog, f), "same value, in this order", "the repaired value is not the one decoded from the wire bytes / not the one re-encoded")
	// re-unmarshal into v from the repaired bytes
	ok2 := false
	if mar != nil {
		mv := mar.(*ssa.Call)
		for _, call := range flow.Calls(f) {
			cc := call.Common()
			if cc.IsInvoke() && cc.Method.Name() == "Unmarshal" && call != unm && len(cc.Args) == 1 {
				if ex, isEx := cc.Args[0].(*ssa.Extract); isEx && ex.Tuple == ssa.Value(mv) && ex.Index == 0 {
					// receiver derives from v (param 1)
					if ta, isTA := flow.Strip(cc.Value).(*ssa.Extract); isTA {
						if t, isT := ta.Tuple.(*ssa.TypeAssert); isT && t.X == ssa.Value(f.Params[1]) {
							ok2 = true
						}
					}
				}
			}
		}
	}
	res.Check(ok2, rule, "convertAndRepairInvalidUTF8: target is re-decoded from the repaired bytes", fnPos(c.Prog, f), "v.Unmarshal(repaired)", "the caller's message is not re-decoded from the repaired encoding")
}

// messageOf: v reads the Message of the failure link `link` (field load or GetMessage()).
func messageOf(v ssa.Value, link ssa.Value) bool {
	if src, fld, ok := flow.FieldLoadOf(v); ok && fld == "Message" && src == link {
		return true
	}
	if call, ok := v.(*ssa.Call); ok && isMethodNamed(&call.Call, "GetMessage") && len(call.Call.Args) == 1 && call.Call.Args[0] == link {
		return true
	}
	if cv, ok := v.(*ssa.Convert); ok {
		return messageOf(cv.X, link)
	}
	return false
}

// checkConversionLookups: both conversion tables are consulted with the message that is being decoded (the
// function's own parameter), the frontend table exactly when the admin table had no entry, and failure is reported
// only when neither has one. A lookup with another value (e.g. the nil result of the first lookup) makes every type
// of that table "unconvertible", i.e. unrepairable.
func checkConversionLookups(c *Ctx, res *report.Result, f *ssa.Function, rule string) {
	if len(f.Params) < 2 {
		return
	}
	msg := ssa.Value(f.Params[1])
	n := 0
	for _, tbl := range []string{"adminConvertTo122", "frontendConvertTo122"} {
		calls := flow.FindCalls(f, func(cc *ssa.CallCommon) bool { return flow.IsCallTo(cc, compatPkg, "", tbl) })
		if len(calls) == 0 {
			// the lookups may live in a module helper called with the message: follow one level
			for _, hc := range flow.Calls(f) {
				H := flow.StaticCallee(hc.Common())
				if H == nil || H.Package() != f.Package() || len(H.Blocks) == 0 {
					continue
				}
				inner := flow.FindCalls(H, func(cc *ssa.CallCommon) bool { return flow.IsCallTo(cc, compatPkg, "", tbl) })
				if len(inner) != 1 {
					continue
				}
				okThrough := false
				ia := flow.Strip(flow.ResolveLoad(inner[0].Common().Args[0]))
				for k, hp := range H.Params {
					if ia == ssa.Value(hp) && k < len(hc.Common().Args) && flow.Strip(flow.ResolveLoad(hc.Common().Args[k])) == msg {
						okThrough = true
					}
				}
				n++
				res.Check(okThrough, rule, "convertAndRepairInvalidUTF8: "+tbl+" is consulted with the message being decoded", instrPos(c.Prog, inner[0]), "through helper "+H.Name(), "the table is consulted (in helper "+H.Name()+") with something other than the message being decoded")
				calls = nil
				goto next
			}
		}
		if len(calls) != 1 {
			res.Undec(rule, "convertAndRepairInvalidUTF8: lookup in "+tbl, fnPos(c.Prog, f), fmt.Sprintf("%d calls", len(calls)))
			continue
		}
		{
			n++
			arg := flow.Strip(flow.ResolveLoad(calls[0].Common().Args[0]))
			res.Check(arg == msg, rule, "convertAndRepairInvalidUTF8: "+tbl+" is consulted with the message being decoded", instrPos(c.Prog, calls[0]), "argument = the function's message parameter", "the table is consulted with "+flow.Describe(arg)+" instead of the message being decoded: no type of this table is ever found, so invalid UTF-8 in any message of those types is never repaired")
		}
	next:
	}
	_ = n
}
