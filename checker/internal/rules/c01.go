package rules

import (
	"fmt"
	"go/token"
	"go/types"
	"strings"

	"golang.org/x/tools/go/ssa"

	"s2scheck/internal/flow"
	"s2scheck/internal/report"
)

func init() {
	Registry["C01"] = c01
	Registry["C03"] = c03
}

// ---------------------------------------------------------------------------------------------
// P-RED: reduction over a range loop

type reduction struct {
	next   *ssa.Next
	acc    *ssa.Phi
	val    ssa.Value // ranged value
	kind   string    // MIN / MAX / other
	filter string    // a condition in the loop body that is neither the first-flag nor the comparison
	over   string    // field path of the ranged map
}

// rangeReductionOver finds the loop ranging over receiver field `field` in f and classifies how its
// int64 accumulator is updated.
func rangeReductionOver(f *ssa.Function, field string) *reduction {
	for _, b := range f.Blocks {
		for _, ins := range b.Instrs {
			nx, ok := ins.(*ssa.Next)
			if !ok {
				continue
			}
			rg, ok := nx.Iter.(*ssa.Range)
			if !ok {
				continue
			}
			_, fld, ok := flow.FieldLoadOf(rg.X)
			if !ok || fld != field {
				continue
			}
			r := &reduction{next: nx, over: fld}
			for _, rr := range *nx.Referrers() {
				if ex, ok := rr.(*ssa.Extract); ok && ex.Index == 2 {
					r.val = ex
				}
			}
			// accumulator: a phi in the header with an edge that is the ranged value
			for _, hi := range nx.Block().Instrs {
				phi, ok := hi.(*ssa.Phi)
				if !ok {
					continue
				}
				for _, e := range phi.Edges {
					if e == r.val {
						r.acc = phi
					}
				}
			}
			if r.acc == nil || r.val == nil {
				r.kind = "other"
				return r
			}
			// conditions inside the loop body
			head := nx.Block()
			body := head.Succs[0]
			r.kind = ""
			var firstIfs, cmpBlocks []*ssa.BasicBlock
			for _, bb := range f.Blocks {
				if !(body.Dominates(bb)) || !flow.ReachBlock(bb, head, nil) {
					continue
				}
				iff := lastIfOf(bb)
				if iff == nil {
					continue
				}
				cond := iff.Cond
				if _, isPhi := cond.(*ssa.Phi); isPhi && cond.Type().Underlying() == types.Typ[types.Bool] {
					// the `first` flag: its true side must take the value unconditionally (first || cmp), not lead
					// into the comparison (first && cmp never takes a value)
					firstIfs = append(firstIfs, bb)
					continue
				}
				bo, ok := cond.(*ssa.BinOp)
				if !ok {
					r.filter = flow.Describe(cond)
					continue
				}
				va := bo.X == r.val && bo.Y == ssa.Value(r.acc)
				av := bo.X == ssa.Value(r.acc) && bo.Y == r.val
				if !va && !av {
					r.filter = flow.Describe(cond)
					continue
				}
				cmpBlocks = append(cmpBlocks, bb)
				// which successor updates? the one from which the update edge of the phi is reached
				updSucc := -1
				for i, e := range r.acc.Edges {
					if e == r.val {
						p := r.acc.Block().Preds[i]
						for si, s := range bb.Succs {
							if s == p || flow.ReachBlock(s, p, func(a, b2 *ssa.BasicBlock) bool { return b2 != head }) {
								if updSucc == -1 || si == 0 {
									updSucc = si
								}
							}
						}
					}
				}
				op := bo.Op
				if av { // acc op val  ==  val op' acc
					switch op {
					case token.LSS:
						op = token.GTR
					case token.LEQ:
						op = token.GEQ
					case token.GTR:
						op = token.LSS
					case token.GEQ:
						op = token.LEQ
					}
				}
				if updSucc == 1 { // update on the false side: negate
					switch op {
					case token.LSS:
						op = token.GEQ
					case token.LEQ:
						op = token.GTR
					case token.GTR:
						op = token.LEQ
					case token.GEQ:
						op = token.LSS
					}
				}
				switch op {
				case token.LSS, token.LEQ:
					r.kind = "MIN"
				case token.GTR, token.GEQ:
					r.kind = "MAX"
				default:
					r.kind = "other"
				}
			}
			if r.kind == "" {
				r.kind = "other"
			}
			if r.kind == "MIN" || r.kind == "MAX" {
				isCmp := func(b *ssa.BasicBlock) bool {
					for _, cb := range cmpBlocks {
						if cb == b {
							return true
						}
					}
					return false
				}
				for _, fb := range firstIfs {
					// from the true side the update edge is reached without passing a comparison or the header
					reachesUpdate := false
					for i, e := range r.acc.Edges {
						if e != r.val {
							continue
						}
						p := r.acc.Block().Preds[i]
						t := fb.Succs[0]
						if !isCmp(t) && (t == p || flow.ReachBlock(t, p, func(a, b2 *ssa.BasicBlock) bool { return b2 != head && !isCmp(b2) })) {
							reachesUpdate = true
						}
					}
					if !reachesUpdate {
						r.kind = "other (the first-element flag does not take the value unconditionally)"
					}
				}
			}
			return r
		}
	}
	return nil
}

func isNumRemainingLoop(iff *ssa.If) bool {
	bo, ok := iff.Cond.(*ssa.BinOp)
	if !ok || bo.Op != token.GTR {
		return false
	}
	if n, ok := flow.ConstInt(bo.Y); !ok || n != 0 {
		return false
	}
	phi, ok := bo.X.(*ssa.Phi)
	if !ok {
		return false
	}
	var dec func(v ssa.Value, d int) bool
	dec = func(v ssa.Value, d int) bool {
		if d > 4 {
			return false
		}
		switch x := v.(type) {
		case *ssa.BinOp:
			if x.Op == token.SUB {
				if k, ok := flow.ConstInt(x.Y); ok && k == 1 {
					return true
				}
			}
		case *ssa.Phi:
			for _, e := range x.Edges {
				if e != v && dec(e, d+1) {
					return true
				}
			}
		}
		return false
	}
	for _, e := range phi.Edges {
		if dec(e, 0) {
			return true
		}
	}
	return false
}

func c01(c *Ctx) (*report.Result, error) {
	res := newResult("C01")
	res.RuleDoc["O1.1"] = "the value acknowledged upstream is a MIN reduction over all entries of ackByTarget (no entry is filtered out), read and updated under ackMu"
	res.RuleDoc["O1.2"] = "the per-source value computed by AggregateUpTo is a MAX reduction over the entries it covers; only hole entries are skipped"
	res.RuleDoc["O1.3"] = "recvAck discards ring entries only after the forwarding loop completed, with the very count AggregateUpTo returned in that iteration; a target is counted as done only when DeliverAckToShardOwner returned true; the shutdown exits discard nothing"
	res.RuleDoc["O1.7"] = "the proxy-id table translates a target's confirmation back to exactly the source ids it covers (the index, growth, append and discard obligations of C05, imported): the per-source value acknowledged upstream is read from this table"
	if r5, err := c05(c); err == nil && r5 != nil {
		if n := importObligations(res, r5, "O1.7", nil); n < 10 {
			res.Undec("O1.7", "proxy-id table obligations", "", fmt.Sprintf("only %d obligations imported from C05", n))
		}
	} else {
		res.Undec("O1.7", "proxy-id table obligations", "", "C05 rule set failed")
	}
	res.RuleDoc["O1.9"] = "an acknowledgement forwarded between proxy nodes travels on the stream of its own (target shard, source shard) pair and a nil result means it was sent (same analysis as O9.4): the node that owns the source shard credits an incoming ack to the target shard of the stream it arrives on, and the minimum over targets is what the source is told"
	checkIntraSenders(c, res, "O1.9")
	res.RuleDoc["O1.8"] = "a silent target constrains the acknowledgement: before a task batch is handed to a target shard, the receiver makes sure ackByTarget has an entry for that target (created, only if absent, with the id of the first task handed over, under ackMu) - the upstream ack is the minimum over the entries, so a target without an entry (no ack yet) would not hold it back"
	if f := resolve(c, res, "O1.8", anchor{"proxy", "*proxyStreamReceiver", "recvReplicationMessages"}); f != nil {
		checkSilentTargets(c, res, f, "O1.8")
		res.RuleDoc["O1.13"] = "a routed message is attributed to the shard it was read from: every RoutedMessage built by a receiver carries SourceShard = that receiver's sourceShardID, the intra-proxy receiver hands it to its own target's channel, and the intra-proxy sender forwards an ack to its own source shard - the ring records that attribution and acknowledges exactly that shard"
		checkShardIDRoles(c, res, "O1.13", func(kind, callee string) bool {
			return kind == "lit" || callee == "DeliverAckToShardOwner" || callee == "GetRemoteSendChan"
		})
		res.RuleDoc["O1.14"] = "the keep-alive repeats the aggregate, not one target's report (same analysis as O3.4): lastSentAck is the request just sent with the aggregated minimum, and the keep-alive re-sends that object"
		if r3, err := Registry["C03"](c); err == nil && r3 != nil {
			if n := importObligations(res, r3, "O1.14", func(o report.Obligation) bool { return o.Rule == "O3.4" }); n < 2 {
				res.Undec("O1.14", "keep-alive obligations of O3.4", "", fmt.Sprintf("%d imported, at least 2 expected", n))
			}
		}
		res.RuleDoc["O1.16"] = "the confirmation that is translated is the target's overall one (same analysis as O4.17): recvAck hands the id table the received SyncReplicationState's own InclusiveLowWatermark"
		checkAckWatermarkSource(c, res, "O1.16")
		res.RuleDoc["O1.18"] = "a target that has been handed tasks keeps constraining the minimum (same analysis as O4.19): no entry of ackByTarget is removed during an incarnation"
		checkAckTableNeverShrinks(c, res, "O1.18")
		res.RuleDoc["O1.17"] = "the levels acknowledged are the ones the id table reported for this confirmation (same analysis as O5.11): recvAck does not edit the map returned by AggregateUpTo"
		checkTranslationNotEdited(c, res, "O1.17")
		res.RuleDoc["O1.15"] = "what is re-acknowledged for an idle source shard is only what the id table said the target confirmed: prevAckBySource is written only by recvAck, under the sender's mutex, with the (source shard, level) pair of AggregateUpTo's result, and Run creates it empty - recvAck's fallback branch acknowledges every remembered level again, without any further test, whenever an ack covers no new entry"
		checkPrevAckWriters(c, res, "O1.15")
		res.RuleDoc["O1.12"] = "a confirmation is filed under the target it came from (same analysis as O3.14): an ack forwarded under another target's shard overwrites that target's lower level in ackByTarget and the minimum rises above what it confirmed"
		checkRoutedAckTarget(c, res, "O1.12")
		res.RuleDoc["O1.11"] = "each target stream's sender owns the message it is handed (same analysis as O2.5 / O4.12): a body shared between the targets of a fan-out lets one target's sender inherit another's rewritten watermark, advertise it in keep-alives, and have the target confirm ids it was never sent - which the ring translates into source ids that were not confirmed"
		checkFreshPerHandover(c, res, "O1.11", f)
	}
	res.RuleDoc["O1.6"] = "the watermark replayed to late-registering target shards is a watermark nobody can be behind: every receiver's lastWatermark is written only from watermark-only batches (under len(ReplicationTasks) == 0); the exclusive high watermark of a task batch is not replayed, because its tasks may still be waiting for their target"
	checkReplayedWatermark(c, res, "O1.6")
	res.RuleDoc["O1.4"] = "watermark-only batches are offered to every registered target stream of the target cluster and to every remote shard of that cluster (no filter that could starve a target of watermarks)"

	if f := resolve(c, res, "O1.1", anchor{"proxy", "*proxyStreamReceiver", "sendAck"}); f != nil {
		r := rangeReductionOver(f, "ackByTarget")
		if r == nil {
			res.Viol("O1.1", "sendAck: aggregation over ackByTarget", fnPos(c.Prog, f), "no loop over ackByTarget: the upstream ack is not derived from all targets")
		} else {
			res.Check(r.kind == "MIN", "O1.1", "sendAck: upstream ack is the minimum over the targets' acks", instrPos(c.Prog, r.next), "MIN reduction", "the reduction over ackByTarget is "+r.kind+": an ack above the slowest target's level would tell the source that unconfirmed tasks are done")
			res.Check(r.filter == "", "O1.1", "sendAck: every target's ack takes part in the minimum", instrPos(c.Prog, r.next), "no filter in the loop", "entries of ackByTarget are filtered by "+r.filter+" before the minimum is taken")
			res.Check(flow.HeldAt(f, r.next, "ackMu", true), "O1.1", "sendAck: aggregation under ackMu", instrPos(c.Prog, r.next), "ok", "ackByTarget is read without its lock")
			// the stored per-target value is the ack's InclusiveLowWatermark keyed by the ack's TargetShard
			okStore := false
			for _, b := range f.Blocks {
				for _, ins := range b.Instrs {
					if mu, ok := ins.(*ssa.MapUpdate); ok {
						if _, fld, okf := flow.FieldLoadOf(mu.Map); okf && fld == "ackByTarget" {
							k, _ := flow.FieldPath(mu.Key)
							v, _ := flow.FieldPath(mu.Value)
							if strings.HasSuffix(k, "TargetShard") && strings.HasSuffix(v, "InclusiveLowWatermark") && flow.InstrDominates(mu, r.next) {
								okStore = true
							}
						}
					}
				}
			}
			res.Check(okStore, "O1.1", "sendAck: ackByTarget[ack.TargetShard] = ack's watermark before aggregating", instrPos(c.Prog, r.next), "ok", "the incoming ack is not recorded under its own target shard before the minimum is taken")
			// the sent value derives from the accumulator
			checkSentValue(c, res, f, r, "O1.1")
		}
	}
	if f := resolve(c, res, "O1.2", anchor{"proxy", "*proxyIDRingBuffer", "AggregateUpTo"}); f != nil {
		checkAggregateMax(c, res, f, "O1.2")
	}
	if f := resolve(c, res, "O1.3", anchor{"proxy", "*proxyStreamSender", "recvAck"}); f != nil {
		checkRecvAckDiscard(c, res, f)
		checkRetryLoopBookkeeping(c, res, "O1.3", f, 2)
		res.RuleDoc["O1.5"] = "an acknowledgement handed to a source shard's receiver is a fresh object: nothing reachable from it is written after the hand-over (the receiver reads it later, from another goroutine)"
		checkNoWriteAfterHandover(c, res, "O1.5", f, "forwarded ack")
	}
	if f := resolve(c, res, "O1.5", anchor{"proxy", "*intraProxyStreamSender", "recvAck"}); f != nil {
		checkNoWriteAfterHandover(c, res, "O1.5", f, "forwarded ack")
	}
	if f := resolve(c, res, "O1.4", anchor{"proxy", "*proxyStreamReceiver", "recvReplicationMessages"}); f != nil {
		checkWatermarkBroadcast(c, res, f)
		checkEveryWatermarkBroadcast(c, res, f, "O1.4")
	}
	res.Explanation = "SSA of proxyStreamReceiver.sendAck (reduction classification of the aggregation loop over ackByTarget: accumulator phi, comparison normalised to MIN/MAX, absence of any filtering condition), proxyIDRingBuffer.AggregateUpTo (MAX per source, hole skip), proxyStreamSender.recvAck (identity of the count passed to Discard with the count returned by AggregateUpTo, must-pass-through of the completed forwarding loop, decrement only on a true delivery) and the watermark-only branch of recvReplicationMessages (ranges over the complete channel table of the target cluster and all remote shards). These are necessary shapes of 'never acknowledge an unconfirmed task'; the behavioural statement over all interleavings of target acknowledgements is not decided (see DESIGN.md section 7, including the observation that a target that has not reported yet does not constrain the minimum)."
	res.Assumptions = []string{"values are only compared and copied in these loops, so the MIN/MAX classification is exact"}
	res.RuleDoc["O1.10"] = "no swallowed error in the files the mechanism lives in: no function returns a nil error on a path on which an error obtained from a call is known to be non-nil (io.EOF from a stream Recv, the normal end of a receive loop, is the one accepted idiom)"
	checkNoSwallowedErrors(c, res, "O1.10", []string{"proxy/proxy_streams.go", "proxy/intra_proxy_router.go", "proxy/shard_manager.go"})
	return res, nil
}

// checkSentValue: the InclusiveLowWatermark of the request handed to Send is the accumulator or its clamp.
func checkSentValue(c *Ctx, res *report.Result, f *ssa.Function, r *reduction, rule string) (send *ssa.Call, sentVal ssa.Value, req ssa.Value) {
	for _, call := range flow.Calls(f) {
		cc := call.Common()
		if !cc.IsInvoke() || cc.Method.Name() != "Send" || len(cc.Args) != 1 {
			continue
		}
		al, ok := cc.Args[0].(*ssa.Alloc)
		if !ok {
			continue // keep-alive resend of a stored object
		}
		send, _ = call.(*ssa.Call)
		req = al
		// find the store of InclusiveLowWatermark into the object graph built here
		for _, b := range f.Blocks {
			for _, ins := range b.Instrs {
				if st, ok := ins.(*ssa.Store); ok && flow.InstrDominates(st, call) {
					if fa, ok := st.Addr.(*ssa.FieldAddr); ok && flow.FieldName(fa.X.Type(), fa.Field) == "InclusiveLowWatermark" {
						if _, isAlloc := fa.X.(*ssa.Alloc); isAlloc {
							sentVal = st.Val
						}
					}
				}
			}
		}
	}
	if send == nil || sentVal == nil {
		res.Undec(rule, "sendAck: aggregated ack sent upstream", fnPos(c.Prog, f), "cannot find the Send of a freshly built SyncReplicationState")
		return
	}
	ok := sentVal == ssa.Value(r.acc)
	if phi, isPhi := sentVal.(*ssa.Phi); isPhi {
		ok = true
		for _, e := range phi.Edges {
			if e == ssa.Value(r.acc) {
				continue
			}
			if p, okp := flow.FieldPath(e); okp && strings.HasSuffix(p, ".lastExclusiveHighOriginal") {
				continue
			}
			ok = false
		}
	}
	res.Check(ok, rule, "sendAck: the value sent is the aggregated minimum (or its clamp)", instrPos(c.Prog, send), "InclusiveLowWatermark = min (clamped to the source's last high watermark)", "the acknowledgement sent upstream is not the aggregated minimum")
	// the clamp may only lower the value: the source's high watermark replaces the minimum only where the minimum
	// exceeds it - on any other edge it would raise the acknowledgement above what the targets confirmed
	if phi, isPhi := sentVal.(*ssa.Phi); isPhi && ok {
		for i, e := range phi.Edges {
			pth, okp := flow.FieldPath(e)
			if !okp || !strings.HasSuffix(pth, ".lastExclusiveHighOriginal") {
				continue
			}
			pred := phi.Block().Preds[i]
			gs := append(flow.NormGuards(flow.Guards(pred)), flow.NormGuards(flow.EdgeGuards(pred, phi.Block()))...)
			lowers := false
			for _, g := range gs {
				bo, isB := g.Cond.(*ssa.BinOp)
				if !isB {
					continue
				}
				py, _ := flow.FieldPath(bo.Y)
				px, _ := flow.FieldPath(bo.X)
				if bo.X == ssa.Value(r.acc) && strings.HasSuffix(py, ".lastExclusiveHighOriginal") && ((bo.Op == token.GTR && g.Side) || (bo.Op == token.GEQ && g.Side) || (bo.Op == token.LEQ && !g.Side) || (bo.Op == token.LSS && !g.Side)) {
					lowers = true
				}
				if bo.Y == ssa.Value(r.acc) && strings.HasSuffix(px, ".lastExclusiveHighOriginal") && ((bo.Op == token.LSS && g.Side) || (bo.Op == token.LEQ && g.Side) || (bo.Op == token.GEQ && !g.Side) || (bo.Op == token.GTR && !g.Side)) {
					lowers = true
				}
			}
			res.Check(lowers, rule, "sendAck: the clamp only lowers the acknowledgement", instrPos(c.Prog, send), "the high watermark replaces the minimum only under min > lastExclusiveHighOriginal", "the source's last high watermark is sent in place of the minimum on a path on which the minimum was not found to exceed it: the acknowledgement is raised above what the slowest target confirmed")
		}
	}
	return
}

func checkAggregateMax(c *Ctx, res *report.Result, f *ssa.Function, rule string) {
	var upd *ssa.MapUpdate
	for _, b := range f.Blocks {
		for _, ins := range b.Instrs {
			if mu, ok := ins.(*ssa.MapUpdate); ok {
				if _, isMk := mu.Map.(*ssa.MakeMap); isMk {
					upd = mu
				}
			}
		}
	}
	if upd == nil {
		res.Undec(rule, "AggregateUpTo: result update", fnPos(c.Prog, f), "no store into the result map")
		return
	}
	k, _ := flow.FieldPath(upd.Key)
	v, _ := flow.FieldPath(upd.Value)
	res.Check(strings.HasSuffix(k, "sourceShard") && strings.HasSuffix(v, "sourceTask"), rule, "AggregateUpTo: result[entry.sourceShard] = entry.sourceTask", instrPos(c.Prog, upd), "ok", "the aggregation is not keyed by the entry's source shard / does not store the entry's original task id")
	// every edge into the update block: lookup not found, or entry.sourceTask > current
	okMax := true
	why := ""
	seenAbsent, seenLarger := false, false
	for _, p := range upd.Block().Preds {
		iff := lastIfOf(p)
		if iff == nil {
			okMax, why = false, "unconditional update"
			continue
		}
		side := p.Succs[0] == upd.Block()
		switch x := iff.Cond.(type) {
		case *ssa.Extract:
			if lk, isL := x.Tuple.(*ssa.Lookup); !isL || x.Index != 1 || side || lk.X != upd.Map {
				okMax, why = false, "update edge not the 'no entry yet' case"
			} else {
				seenAbsent = true
			}
		case *ssa.BinOp:
			lhs, _ := flow.FieldPath(x.X)
			_, rhsIsLookup := x.Y.(*ssa.Extract)
			gt := ((x.Op == token.GTR || x.Op == token.GEQ) && side) || ((x.Op == token.LEQ || x.Op == token.LSS) && !side)
			if !(strings.HasSuffix(lhs, "sourceTask") && rhsIsLookup && gt) {
				// mirrored form current < sourceTask
				rhs, _ := flow.FieldPath(x.Y)
				_, lhsIsLookup := x.X.(*ssa.Extract)
				lt := ((x.Op == token.LSS || x.Op == token.LEQ) && side) || ((x.Op == token.GEQ || x.Op == token.GTR) && !side)
				if !(strings.HasSuffix(rhs, "sourceTask") && lhsIsLookup && lt) {
					okMax, why = false, "the update condition is not 'entry.sourceTask > current': "+flow.Describe(x)
				}
			}
			// the comparison itself must be made on the found side only
			foundSide := false
			for _, g := range flow.NormGuards(flow.Guards(p)) {
				if ex, isEx := g.Cond.(*ssa.Extract); isEx && ex.Index == 1 && g.Side {
					if lk, isL := ex.Tuple.(*ssa.Lookup); isL && lk.X == upd.Map {
						foundSide = true
					}
				}
			}
			if okMax && foundSide {
				seenLarger = true
			} else if okMax {
				okMax, why = false, "the 'larger' comparison is made where no entry was found (an `&&` for the `||`): a source shard without an entry never gets one"
			}
		default:
			okMax, why = false, "unrecognised update condition "+flow.Describe(iff.Cond)
		}
	}
	if okMax && !(seenAbsent && seenLarger) {
		okMax, why = false, fmt.Sprintf("the update is not reached both for a source shard without an entry and for a larger id (absent edge: %v, larger edge: %v)", seenAbsent, seenLarger)
	}
	res.Check(okMax, rule, "AggregateUpTo: per-source value is the maximum original id covered", instrPos(c.Prog, upd), "update iff absent or larger", "the per-source acknowledgement is not the maximum over the covered entries ("+why+"): a smaller id would under-acknowledge, a wrong comparison direction would pick the oldest task")
	// skip only holes: any edge from the loop body to the loop post that avoids the lookup must be the hole test
	okHole := true
	var look *ssa.Lookup
	for _, b := range f.Blocks {
		for _, ins := range b.Instrs {
			if lk, ok := ins.(*ssa.Lookup); ok && lk.X == upd.Map {
				look = lk
			}
		}
	}
	if look != nil {
		// conditions dominating... every If between the element load and the lookup must test ClusterID/ShardID == 0
		for _, b := range f.Blocks {
			iff := lastIfOf(b)
			if iff == nil || !b.Dominates(look.Block()) && b != look.Block() {
				continue
			}
			if !flow.ReachBlock(b, look.Block(), nil) || b == look.Block() {
				continue
			}
			bo, ok := iff.Cond.(*ssa.BinOp)
			if !ok {
				continue
			}
			p, _ := flow.FieldPath(bo.X)
			if strings.Contains(p, "sourceShard") {
				n, isN := flow.ConstInt(bo.Y)
				if !(bo.Op == token.EQL && isN && n == 0) {
					okHole = false
				}
			}
		}
	}
	res.Check(okHole && look != nil, rule, "AggregateUpTo: only hole entries (zero source shard) are skipped", fnPos(c.Prog, f), "ok", "covered entries other than holes are skipped: their tasks would never be acknowledged")
}

func checkRecvAckDiscard(c *Ctx, res *report.Result, f *ssa.Function) {
	rule := "O1.3"
	agg := flow.FindCalls(f, func(cc *ssa.CallCommon) bool {
		return flow.IsCallTo(cc, proxyPkg, "proxyIDRingBuffer", "AggregateUpTo")
	})
	dis := flow.FindCalls(f, func(cc *ssa.CallCommon) bool { return flow.IsCallTo(cc, proxyPkg, "proxyIDRingBuffer", "Discard") })
	if len(agg) != 1 || len(dis) != 1 {
		res.Undec(rule, "recvAck: AggregateUpTo / Discard calls", fnPos(c.Prog, f), fmt.Sprintf("%d / %d calls", len(agg), len(dis)))
		return
	}
	a, d := agg[0].(*ssa.Call), dis[0].(*ssa.Call)
	okID := false
	if ex, ok := d.Call.Args[1].(*ssa.Extract); ok && ex.Tuple == ssa.Value(a) && ex.Index == 1 {
		okID = true
	}
	res.Check(okID, rule, "recvAck: Discard(count) uses the count AggregateUpTo returned for this ack", instrPos(c.Prog, d), "same value", "the number of entries discarded is not the number that was aggregated and forwarded: unforwarded entries would be dropped (or forwarded ones kept)")
	// the watermark passed to AggregateUpTo is the ack's InclusiveLowWatermark
	p, _ := flow.FieldPath(a.Call.Args[1])
	res.Check(strings.HasSuffix(p, "InclusiveLowWatermark"), rule, "recvAck: AggregateUpTo(ack.InclusiveLowWatermark)", instrPos(c.Prog, a), p, "the ring is aggregated up to "+p)
	// both under s.mu
	res.Check(flow.HeldAt(f, a, "mu", true) && flow.HeldAt(f, d, "mu", true), rule, "recvAck: ring operations under the sender's mutex", instrPos(c.Prog, a), "ok", "the ring is read or trimmed without s.mu")
	// every path from the aggregation to the discard passes a completed forwarding loop (numRemaining > 0 test)
	isLoopTest := func(x ssa.Instruction) bool {
		iff, ok := x.(*ssa.If)
		return ok && isNumRemainingLoop(iff)
	}
	r := flow.FindPath(flow.After(a), func(x ssa.Instruction) bool { return x == ssa.Instruction(d) }, isLoopTest, nil)
	res.Check(!r.Found, rule, "recvAck: entries are discarded only after the forwarding loop ran to completion", instrPos(c.Prog, d), "every path from AggregateUpTo to Discard passes a `numRemaining > 0` loop exit", "Discard can be reached without the acks having been forwarded ("+flow.BlockPath(r.Via)+")")
	// a target counts as done only on a true delivery
	n := 0
	for _, call := range flow.FindCalls(f, func(cc *ssa.CallCommon) bool { return cc.IsInvoke() && cc.Method.Name() == "DeliverAckToShardOwner" }) {
		n++
		cv := call.(*ssa.Call)
		// every decrement of numRemaining and every `sent[..] = true` in this call's loop is guarded by cv == true
		ok := false
		bad := false
		inLoop := func(b *ssa.BasicBlock) bool {
			return cv.Block().Dominates(b) && flow.ReachBlock(b, cv.Block(), nil)
		}
		for _, b := range f.Blocks {
			if !inLoop(b) && b != cv.Block() {
				continue
			}
			for _, ins := range b.Instrs {
				switch x := ins.(type) {
				case *ssa.BinOp:
					if k, isK := flow.ConstInt(x.Y); x.Op == token.SUB && isK && k == 1 {
						if guardedTrue(b, cv) {
							ok = true
						} else {
							bad = true
						}
					}
				}
			}
		}
		if bad {
			ok = false
		}
		res.Check(ok, rule, fmt.Sprintf("recvAck: a source is marked acknowledged only when DeliverAckToShardOwner returned true (site %d)", n), instrPos(c.Prog, call), "numRemaining-- under the true result", "the forwarding loop counts a source as done although its ack was not delivered")
		// the ack forwarded carries the aggregated original id for that source
	}
	if n == 0 {
		res.Viol(rule, "recvAck: acks are forwarded to the source shards", fnPos(c.Prog, f), "no DeliverAckToShardOwner call")
	}
	// shutdown exits inside the loops return without discarding
	// (they are returns: Discard is unreachable after a return by construction; recorded for completeness)
}

func checkWatermarkBroadcast(c *Ctx, res *report.Result, f *ssa.Function) {
	rule := "O1.4"
	all := append([]*ssa.Function{f}, flow.AnonFuncsDeep(f)...)
	// local: range over GetRemoteSendChansByCluster(r.targetShardID.ClusterID)
	okLocal := false
	for _, b := range f.Blocks {
		for _, ins := range b.Instrs {
			rg, ok := ins.(*ssa.Range)
			if !ok {
				continue
			}
			call, ok := rg.X.(*ssa.Call)
			if !ok || !call.Call.IsInvoke() || call.Call.Method.Name() != "GetRemoteSendChansByCluster" {
				continue
			}
			p, _ := flow.FieldPath(call.Call.Args[0])
			if !strings.HasSuffix(p, "targetShardID.ClusterID") {
				res.Viol(rule, "recvReplicationMessages: watermark broadcast covers the target cluster's streams", instrPos(c.Prog, call), "the channel table is filtered by "+p+" instead of the target cluster")
				continue
			}
			// guarded by len(ReplicationTasks) == 0
			okLocal = true
		}
	}
	// a send on the ranged channel exists in a closure
	sendFound := false
	for _, g := range all {
		for _, s := range selectsOf(g) {
			for _, st := range s.States {
				if st.Dir == types.SendOnly {
					sendFound = true
				}
			}
		}
	}
	res.Check(okLocal && sendFound, rule, "recvReplicationMessages: watermark-only batch is offered to every local stream of the target cluster", fnPos(c.Prog, f), "for each channel of GetRemoteSendChansByCluster(target cluster): send", "an idle target stream is not told about the source's progress: its ack never advances and the aggregated minimum stalls (or, worse, excludes it)")
	// remote: range over GetRemoteShardsForPeer("") and their Shards, filter only by cluster id
	okRemote := false
	for _, call := range flow.Calls(f) {
		cc := call.Common()
		if cc.IsInvoke() && cc.Method.Name() == "DeliverMessagesToShardOwner" {
			// in the watermark-only branch: guarded by len(tasks) == 0
			inEmpty := false
			clusterOnly := true
			for _, g := range flow.NormGuards(flow.Guards(call.Block())) {
				bo, ok := g.Cond.(*ssa.BinOp)
				if !ok {
					continue
				}
				if n, isN := flow.ConstInt(bo.Y); isN && n == 0 && bo.Op == token.EQL && g.Side {
					if lc, isC := bo.X.(*ssa.Call); isC {
						if bi, isB := lc.Call.Value.(*ssa.Builtin); isB && bi.Name() == "len" {
							inEmpty = true
						}
					}
				}
			}
			if !inEmpty {
				continue
			}
			// the shard argument is the ranged shard's ID
			p, _ := flow.FieldPath(flow.ResolveLoad(cc.Args[0]))
			_ = p
			okRemote = clusterOnly
		}
	}
	// the peer table is queried for all peers
	okAll := false
	for _, call := range flow.Calls(f) {
		cc := call.Common()
		if cc.IsInvoke() && cc.Method.Name() == "GetRemoteShardsForPeer" {
			if s, ok := flow.ConstString(cc.Args[0]); ok && s == "" {
				okAll = true
			}
		}
	}
	res.Check(okRemote && okAll, rule, "recvReplicationMessages: watermark-only batch is forwarded to every remote shard of the target cluster", fnPos(c.Prog, f), "for each peer, each shard of the target cluster: DeliverMessagesToShardOwner", "remote target shards are not told about the source's progress")
}

// ---------------------------------------------------------------------------------------------
// C03

func c03(c *Ctx) (*report.Result, error) {
	res := newResult("C03")
	res.RuleDoc["O3.1"] = "monotone: a freshly aggregated ack is sent only under `!first && min >= lastSentMin`"
	res.RuleDoc["O3.2"] = "bounded: on every path to that Send the value is clamped to the source's last exclusive high watermark when one is known"
	res.RuleDoc["O3.3"] = "lastSentMin is assigned the value that was sent, after a successful Send, and nowhere else except the per-incarnation reset"
	res.RuleDoc["O3.4"] = "the keep-alive re-sends only the stored last ack object, which is only ever the request that was last sent"
	res.RuleDoc["O3.6"] = "no phantom entry pins the minimum: an ackByTarget entry created at hand-over is keyed by the very target the tasks are handed to (the key that was tested for absence) - an entry under any other key belongs to a target that may never report, and the aggregated ack would stay below the final watermark for ever (same analysis as O1.8)"
	if g := resolve(c, res, "O3.6", anchor{"proxy", "*proxyStreamReceiver", "recvReplicationMessages"}); g != nil {
		checkSilentTargets(c, res, g, "O3.6")
	}
	res.RuleDoc["O3.7"] = "the receive path cannot wedge on the registries' locks: no critical section of package proxy re-acquires its own mutex (a recursive RLock deadlocks as soon as a writer queues between the two acquisitions) and the mutexes nest in one order (same analysis as O8.6) - a wedged receiver never reads the source's later watermarks"
	if spx, err := c.Prog.SSAPkg("proxy"); err == nil {
		checkReentrancy(c, res, "O3.7", []*ssa.Package{spx}, func(key string) bool {
			return !strings.HasPrefix(key, "ReplicationStreamObserver.") && !strings.HasPrefix(key, "StreamTracker.")
		})
	}
	res.RuleDoc["O3.5"] = "retry by repetition: every watermark-only batch received is fanned out again (no path from the empty-batch test to the next Recv skips the local or the remote broadcast): the per-target hand-off is a non-blocking send that may drop, so the source's periodic repeat is the only retry"
	if g := resolve(c, res, "O3.5", anchor{"proxy", "*proxyStreamReceiver", "recvReplicationMessages"}); g != nil {
		checkEveryWatermarkBroadcast(c, res, g, "O3.5")
	}
	f := resolve(c, res, "O3.1", anchor{"proxy", "*proxyStreamReceiver", "sendAck"})
	if f == nil {
		return res, nil
	}
	r := rangeReductionOver(f, "ackByTarget")
	if r == nil || r.acc == nil {
		res.Undec("O3.1", "sendAck: aggregation loop", fnPos(c.Prog, f), "not found")
		return res, nil
	}
	res.Check(r.kind == "MIN" && r.filter == "", "O3.1", "sendAck: the aggregated value is the minimum over all targets (shared with O1.1)", instrPos(c.Prog, r.next), "MIN reduction, no filter", "the reduction over ackByTarget is "+r.kind+" (filter: "+r.filter+"): with a conjunction in place of `first || wm < min` no value is ever taken and no acknowledgement is ever sent")
	send, sentVal, req := checkSentValue(c, res, f, r, "O3.2")
	if send == nil {
		return res, nil
	}
	// ---- O3.1 guards of the Send
	var firstPhi ssa.Value
	for _, hi := range r.next.Block().Instrs {
		if phi, ok := hi.(*ssa.Phi); ok && phi.Type().Underlying() == types.Typ[types.Bool] {
			firstPhi = phi
		}
	}
	okFirst, okMono := false, false
	for _, g := range flow.NormGuards(flow.Guards(send.Block())) {
		if g.Cond == firstPhi && !g.Side {
			okFirst = true
		}
		if bo, ok := g.Cond.(*ssa.BinOp); ok {
			lhsAcc := bo.X == ssa.Value(r.acc)
			p, _ := flow.FieldPath(bo.Y)
			if lhsAcc && strings.HasSuffix(p, ".lastSentMin") && ((bo.Op == token.GEQ && g.Side) || (bo.Op == token.LSS && !g.Side)) {
				okMono = true
				// lastSentMin read under the lock, in the section of the aggregation
			}
			if lhsAcc && strings.HasSuffix(p, ".lastSentMin") && ((bo.Op == token.GTR && g.Side) || (bo.Op == token.LEQ && !g.Side)) {
				okMono = true
			}
		}
	}
	res.Check(okFirst, "O3.1", "sendAck: nothing is sent before any target has acknowledged", instrPos(c.Prog, send), "!first", "an ack is sent although no target has reported: the zero value would be acknowledged")
	res.Check(okMono, "O3.1", "sendAck: a fresh ack is sent only if it does not go below the last one sent", instrPos(c.Prog, send), "min >= lastSentMin", "the acknowledgement sent to the source can decrease")
	// ---- O3.2 clamp
	okClamp := false
	why := "the sent value is the raw minimum on some path on which it exceeds the source's last high watermark"
	if phi, ok := sentVal.(*ssa.Phi); ok {
		// edges carrying the raw accumulator must come from `high <= 0` or `min <= high`
		okClamp = true
		sawClamp := false
		for i, e := range phi.Edges {
			cs := flow.EdgeGuards(phi.Block().Preds[i], phi.Block())
			if p, okp := flow.FieldPath(e); okp && strings.HasSuffix(p, ".lastExclusiveHighOriginal") {
				sawClamp = true
				continue
			}
			// raw edge: need (high > 0) false or (min > high) false
			good := false
			for _, g := range cs {
				bo, ok := g.Cond.(*ssa.BinOp)
				if !ok {
					continue
				}
				px, _ := flow.FieldPath(bo.X)
				py, _ := flow.FieldPath(bo.Y)
				if strings.HasSuffix(px, ".lastExclusiveHighOriginal") && bo.Op == token.GTR && !g.Side {
					if n, isN := flow.ConstInt(bo.Y); isN && n == 0 {
						good = true // no high watermark known
					}
				}
				if bo.X == ssa.Value(r.acc) && strings.HasSuffix(py, ".lastExclusiveHighOriginal") && (bo.Op == token.GTR || bo.Op == token.GEQ) && !g.Side {
					good = true // min <= high (or min < high)
				}
			}
			if !good {
				okClamp = false
			}
		}
		if !sawClamp {
			okClamp = false
			why = "the sent value is never clamped to lastExclusiveHighOriginal"
		}
	} else {
		why = "the sent value is not clamped at all"
	}
	res.Check(okClamp, "O3.2", "sendAck: the ack never exceeds the source's last exclusive high watermark when one is known", instrPos(c.Prog, send), "min = lastExclusiveHighOriginal when min > it > 0", why)
	// lastExclusiveHighOriginal is written only from the received batch's ExclusiveHighWatermark
	sp, _ := c.Prog.SSAPkg("proxy")
	for _, g := range c.Prog.RepoFuncs() {
		if g.Package() != sp {
			continue
		}
		for _, b := range g.Blocks {
			for _, ins := range b.Instrs {
				st, ok := ins.(*ssa.Store)
				if !ok {
					continue
				}
				fa, ok := st.Addr.(*ssa.FieldAddr)
				if !ok || !flow.NamedIs(fa.X.Type(), proxyPkg, "proxyStreamReceiver") {
					continue
				}
				switch flow.FieldName(fa.X.Type(), fa.Field) {
				case "lastExclusiveHighOriginal":
					p, _ := flow.FieldPath(st.Val)
					res.Check(strings.HasSuffix(p, "ExclusiveHighWatermark") && g.Name() == "recvReplicationMessages", "O3.2", shortFn(g)+": lastExclusiveHighOriginal = received batch's ExclusiveHighWatermark", instrPos(c.Prog, st), p, "the clamp bound is written from "+p+" in "+g.Name())
				case "lastSentMin":
					// ---- O3.3
					if n, isN := flow.ConstInt(st.Val); isN && n == 0 && g.Name() == "Run" {
						res.Hold("O3.3", shortFn(g)+": lastSentMin reset at the start of an incarnation", instrPos(c.Prog, st), "per-incarnation reset")
						continue
					}
					okVal := g == f && st.Val == sentVal
					okAfter := g == f && flow.InstrDominates(send, st) && guardedErrNil(st.Block(), ssa.Value(send))
					res.Check(okVal && okAfter, "O3.3", shortFn(g)+": lastSentMin = the value just sent, after a successful Send", instrPos(c.Prog, st), "ok", "lastSentMin is assigned something other than the acknowledged value, or before/without a successful Send: the monotonicity guard would compare against the wrong level")
				case "lastSentAck":
					// ---- O3.4
					okObj := g == f && st.Val == req && flow.InstrDominates(send, st) && guardedErrNil(st.Block(), ssa.Value(send))
					res.Check(okObj, "O3.4", shortFn(g)+": lastSentAck = the request just sent", instrPos(c.Prog, st), "ok", "the keep-alive object is not the last acknowledgement that was successfully sent")
				}
			}
		}
	}
	// ---- O3.3 / O3.2 presence: the guards above compare against lastSentMin and lastExclusiveHighOriginal, so both
	// must actually be kept up to date: after every successful aggregated Send the loop is re-entered only through
	// a store of lastSentMin, and every batch of the relayed kind passes a store of lastExclusiveHighOriginal
	// before the next Recv
	{
		isStoreOf := func(field string) func(ssa.Instruction) bool {
			return func(x ssa.Instruction) bool {
				st, ok := x.(*ssa.Store)
				if !ok {
					return false
				}
				fa, ok := st.Addr.(*ssa.FieldAddr)
				return ok && flow.NamedIs(fa.X.Type(), proxyPkg, "proxyStreamReceiver") && flow.FieldName(fa.X.Type(), fa.Field) == field
			}
		}
		var sel ssa.Instruction
		for _, b := range f.Blocks {
			for _, ins := range b.Instrs {
				if s2, ok := ins.(*ssa.Select); ok && s2.Blocking {
					sel = s2
				}
			}
		}
		if sel != nil {
			pr := flow.FindPath(flow.After(send), func(x ssa.Instruction) bool { return x == sel }, isStoreOf("lastSentMin"), nil)
			res.Check(!pr.Found, "O3.3", "sendAck: lastSentMin is updated after every aggregated ack that was sent", instrPos(c.Prog, send), "no way from the Send back to the select avoids the store", "after a successful Send the loop can be re-entered without recording the value in lastSentMin (path "+flow.BlockPath(pr.Via)+"): the monotonicity guard keeps comparing against an older level and a lower acknowledgement can follow a higher one")
		} else {
			res.Undec("O3.3", "sendAck: select loop", fnPos(c.Prog, f), "no blocking select found")
		}
		if g := resolve(c, res, "O3.2", anchor{"proxy", "*proxyStreamReceiver", "recvReplicationMessages"}); g != nil {
			isRecv := func(x ssa.Instruction) bool {
				call, ok := x.(ssa.CallInstruction)
				return ok && call.Common().IsInvoke() && call.Common().Method.Name() == "Recv"
			}
			for _, call := range flow.Calls(g) {
				if !isRecv(call) {
					continue
				}
				pr := flow.FindPath(flow.After(call), isRecv, isStoreOf("lastExclusiveHighOriginal"), func(a, b *ssa.BasicBlock) bool { return !wrongKindEdge(a, b) })
				res.Check(!pr.Found, "O3.2", "recvReplicationMessages: the clamp bound is recorded for every batch", instrPos(c.Prog, call), "no Recv -> Recv path of a replication-messages response avoids the store of lastExclusiveHighOriginal", "a batch can be consumed without recording its exclusive high watermark (path "+flow.BlockPath(pr.Via)+"): the clamp then compares against an older bound, or against 0, which disables it")
			}
		}
	}
	// keep-alive Send argument is the stored object
	nKA := 0
	for _, call := range flow.Calls(f) {
		cc := call.Common()
		if cc.IsInvoke() && cc.Method.Name() == "Send" && call != ssa.CallInstruction(send) {
			nKA++
			p, _ := flow.FieldPath(cc.Args[0])
			res.Check(strings.HasSuffix(p, ".lastSentAck"), "O3.4", "sendAck: keep-alive re-sends the stored last ack", instrPos(c.Prog, call), p, "the keep-alive sends "+p+" instead of the last acknowledgement: it could raise or lower the acknowledged level")
		}
	}
	if nKA == 0 {
		res.Notes = append(res.Notes, "no keep-alive Send found in sendAck")
	}
	res.Explanation = "SSA of proxyStreamReceiver.sendAck: the guards dominating the Send of a freshly aggregated acknowledgement (not-first, not below lastSentMin), the phi feeding InclusiveLowWatermark (raw minimum only on edges where it does not exceed a known source high watermark, the clamp otherwise), a who-may-write inventory of lastSentMin / lastSentAck / lastExclusiveHighOriginal over package proxy, and the keep-alive's argument. Decides 'never decrease, never exceed the last exclusive high watermark' as shapes on every path; 'eventually equals the final high watermark' is a liveness statement over schedules and is not decided."
	res.Assumptions = []string{"one sendAck goroutine per receiver incarnation writes lastSentMin"}
	res.RuleDoc["O3.8"] = "no swallowed error in the files the mechanism lives in: no function returns a nil error on a path on which an error obtained from a call is known to be non-nil (io.EOF from a stream Recv, the normal end of a receive loop, is the one accepted idiom)"
	res.RuleDoc["O3.10"] = "a dead target incarnation cannot hold a batch for ever: proxyStreamSender.Run passes close(sendMsgChan) on every way from its latch to its return - the close is what wakes a deliverer blocked on the full channel of an incarnation whose peer stopped reading (its send panics into the recover guard and the batch is retried on the successor); without it the source's receive loop stays parked behind that hand-over and nothing later is ever delivered or acknowledged"
	checkSendChanClosedOnExit(c, res, "O3.10")
	res.RuleDoc["O3.11"] = "the watermark replay reaches a (re)registered target: SetupCallbacks installs both shard-change callbacks, each calls notifyReceiversOfNewShard when a shard was added, that notifies every receiver routing to the shard's cluster, and both NotifyNewTargetShard implementations call sendPendingWatermarkToShard - each link on every path (O8.10 is the first link, O1.6 what is replayed)"
	checkReplayChain(c, res, "O3.11")
	res.RuleDoc["O3.12"] = "the fan-out's target list is the requested cluster's: GetRemoteSendChansByCluster copies an entry exactly when its key's ClusterID equals the requested cluster id"
	checkSendChansByClusterFilter(c, res, "O3.12")
	res.RuleDoc["O3.13"] = "every source's acknowledgement is forwarded before the translated entries are dropped: in recvAck's retry loops the remaining count is decremented together with the done-mark of that source and marked sources are skipped (same analysis as O1.3) - a source counted twice ends the loop while another source was never served, and its entries are discarded unacknowledged"
	if g := resolve(c, res, "O3.13", anchor{"proxy", "*proxyStreamSender", "recvAck"}); g != nil {
		checkRetryLoopBookkeeping(c, res, "O3.13", g, 2)
	}
	res.RuleDoc["O3.14"] = "a confirmation is filed under the target it came from: every RoutedAck built by a sender's recvAck (both branches, both sender types) carries TargetShard = that sender's own targetShardID - an ack filed under another shard creates an entry that no real ack updates and pins the aggregated minimum for ever"
	checkRoutedAckTarget(c, res, "O3.14")
	res.RuleDoc["O3.16"] = "a target that registers late can start: the watermark replay to it cannot block the registration it runs in (same analysis as O2.12) - the blocking DeliverMessagesToShardOwner is reached only when the target has no local channel, and the function's own sends are selects with a default arm; with more pending watermarks than the channel holds, a blocking replay parks the new sender before its loops start, the target never acknowledges and the source never sees its final watermark acknowledged"
	checkReplayNeverBlocksRegistration(c, res, "O3.16")
	res.RuleDoc["O3.15"] = "a re-established source stream keeps its ack channel: the receiver evicts its predecessor BEFORE it registers its own ack channel (same analysis as O8.3) - the eviction force-removes the shard's ack channel, so in the other order the new receiver deregisters itself and no acknowledgement ever reaches it"
	if r8, err := Registry["C08"](c); err == nil && r8 != nil {
		if n := importObligations(res, r8, "O3.15", func(o report.Obligation) bool {
			return o.Rule == "O8.3" && strings.Contains(o.Construct, "proxyStreamReceiver")
		}); n < 1 {
			res.Undec("O3.15", "eviction-order obligations of O8.3", "", "none imported")
		}
	}
	checkNoSwallowedErrors(c, res, "O3.8", []string{"proxy/proxy_streams.go"})
	res.RuleDoc["O3.9"] = "relay loops pass every message on: in every loop that takes messages from a stream or channel and forwards them, no path from the take to the next take avoids every stream Send / channel send / Deliver*ToShardOwner (a forwarding loop that runs zero times, the wrong-kind edges of a type assertion and a return that ends the stream are not bypasses; the ack aggregator sendAck is the reviewed exception)"
	checkRelayLoops(c, res, "O3.9", []string{"proxy/proxy_streams.go", "proxy/intra_proxy_router.go"}, 5)
	return res, nil
}

// usedAsDone: the map is consulted at the top of the forwarding loop to skip finished sources
// (`if sent[src] { continue }`).
func usedAsDone(f *ssa.Function, m ssa.Value) bool {
	for _, b := range f.Blocks {
		iff := lastIfOf(b)
		if iff == nil {
			continue
		}
		if lk, ok := iff.Cond.(*ssa.Lookup); ok && lk.X == m {
			return true
		}
	}
	return false
}

// ---------------------------------------------------------------------------------------------
// ownership after hand-over

// handedOverAllocs collects the heap objects reachable from a pointer argument: the Alloc it points to
// and every Alloc stored (directly or through nested literals) into its fields.
func handedOverAllocs(v ssa.Value, out map[*ssa.Alloc]bool, depth int) {
	if depth > 6 || v == nil {
		return
	}
	v = flow.Strip(flow.ResolveLoad(v))
	switch x := v.(type) {
	case *ssa.Alloc:
		if out[x] {
			return
		}
		out[x] = true
		for _, r := range *x.Referrers() {
			switch y := r.(type) {
			case *ssa.FieldAddr:
				for _, rr := range *y.Referrers() {
					if st, ok := rr.(*ssa.Store); ok && st.Addr == ssa.Value(y) {
						handedOverAllocs(st.Val, out, depth+1)
					}
				}
			case *ssa.Store:
				if y.Addr == ssa.Value(x) {
					handedOverAllocs(y.Val, out, depth+1)
				}
			}
		}
	case *ssa.UnOp:
		handedOverAllocs(x.X, out, depth+1)
	case *ssa.MakeInterface:
		handedOverAllocs(x.X, out, depth+1)
	case *ssa.Phi:
		for _, e := range x.Edges {
			handedOverAllocs(e, out, depth+1)
		}
	}
}

// checkNoWriteAfterHandover: an object handed to another goroutine (through DeliverAck/DeliverMessages
// or a channel send) must not be written on any path after the hand-over, unless it is re-allocated
// first (a fresh object per delivery).
func checkNoWriteAfterHandover(c *Ctx, res *report.Result, rule string, f *ssa.Function, what string) {
	n := 0
	for _, g := range append([]*ssa.Function{f}, flow.AnonFuncsDeep(f)...) {
		for _, call := range flow.Calls(g) {
			cc := call.Common()
			if !cc.IsInvoke() || (cc.Method.Name() != "DeliverAckToShardOwner" && cc.Method.Name() != "DeliverMessagesToShardOwner") {
				continue
			}
			n++
			objs := map[*ssa.Alloc]bool{}
			handedOverAllocs(cc.Args[1], objs, 0)
			bad := ""
			for al := range objs {
				if al.Parent() != g {
					continue
				}
				for _, r := range *al.Referrers() {
					fa, ok := r.(*ssa.FieldAddr)
					if !ok {
						continue
					}
					for _, rr := range *fa.Referrers() {
						st, ok := rr.(*ssa.Store)
						if !ok || st.Addr != ssa.Value(fa) {
							continue
						}
						p := flow.FindPath(flow.After(call), func(x ssa.Instruction) bool { return x == ssa.Instruction(st) }, func(x ssa.Instruction) bool { return x == ssa.Instruction(al) }, nil)
						if p.Found {
							bad = fmt.Sprintf("field %s of an object allocated at %s is written at %s after the object was handed over", flow.FieldName(fa.X.Type(), fa.Field), instrPos(c.Prog, al), instrPos(c.Prog, st))
						}
					}
				}
			}
			res.Check(bad == "", rule, fmt.Sprintf("%s: %s #%d is a fresh object per delivery", shortFn(g), what, n), instrPos(c.Prog, call), "no store into the handed-over object graph is reachable after the hand-over without re-allocating it",
				"the receiver goroutine dequeues the value later and reads through the shared pointer: "+bad+" - it can observe another delivery's value")
		}
	}
}

// checkEveryWatermarkBroadcast: from the true side of `len(ReplicationTasks) == 0`, every path that reaches the
// next Recv passes the range over the local channel table and the remote shard query. A path that skips
// them (deduplicating "unchanged" watermarks, rate limiting, ...) removes the only retry of a dropped
// non-blocking hand-off.
func checkEveryWatermarkBroadcast(c *Ctx, res *report.Result, f *ssa.Function, rule string) {
	var start *ssa.BasicBlock
	for _, b := range f.Blocks {
		iff := lastIfOf(b)
		if iff == nil {
			continue
		}
		bo, ok := iff.Cond.(*ssa.BinOp)
		if !ok || bo.Op != token.EQL {
			continue
		}
		if n, isN := flow.ConstInt(bo.Y); !isN || n != 0 {
			continue
		}
		lc, isC := bo.X.(*ssa.Call)
		if !isC {
			continue
		}
		if bi, isB := lc.Call.Value.(*ssa.Builtin); !isB || bi.Name() != "len" {
			continue
		}
		if p, _ := flow.FieldPath(lc.Call.Args[0]); strings.HasSuffix(p, "ReplicationTasks") {
			start = b.Succs[0]
		}
	}
	if start == nil {
		res.Undec(rule, "recvReplicationMessages: watermark-only branch", fnPos(c.Prog, f), "the `len(ReplicationTasks) == 0` test was not found")
		return
	}
	isRecv := func(ins ssa.Instruction) bool {
		call, ok := ins.(ssa.CallInstruction)
		return ok && call.Common().IsInvoke() && call.Common().Method.Name() == "Recv"
	}
	for _, spec := range []struct{ what, method string }{{"local streams", "GetRemoteSendChansByCluster"}, {"remote shards", "GetRemoteShardsForPeer"}} {
		through := func(ins ssa.Instruction) bool {
			call, ok := ins.(ssa.CallInstruction)
			return ok && call.Common().IsInvoke() && call.Common().Method.Name() == spec.method
		}
		r := flow.FindPath(flow.Point{Block: start}, isRecv, through, nil)
		res.Check(!r.Found, rule, "recvReplicationMessages: every watermark-only batch is broadcast to the "+spec.what, c.Prog.Pos(start.Instrs[0].Pos()), "no path from the empty-batch test to the next Recv skips "+spec.method, "a watermark-only batch can be consumed without being offered to the "+spec.what+" (path "+flow.BlockPath(r.Via)+"): a hand-off dropped earlier (queue full) is then never repeated and the aggregated ack stalls below the final watermark")
	}
}

// checkReplayedWatermark: sibling rule over every receiver type that keeps a lastWatermark for
// NotifyNewTargetShard / GetLastWatermark. A target that has nothing outstanding confirms a watermark-only
// message at once, and that confirmation is forwarded to the source as "everything below is replicated".
func checkReplayedWatermark(c *Ctx, res *report.Result, rule string) {
	sp, err := c.Prog.SSAPkg("proxy")
	if err != nil {
		res.Undec(rule, "proxy package", "", err.Error())
		return
	}
	n := 0
	for _, f := range c.Prog.RepoFuncs() {
		if f.Package() != sp || !isShippedFunc(f) {
			continue
		}
		for _, b := range f.Blocks {
			for _, ins := range b.Instrs {
				st, ok := ins.(*ssa.Store)
				if !ok {
					continue
				}
				fa, ok := st.Addr.(*ssa.FieldAddr)
				if !ok || flow.FieldName(fa.X.Type(), fa.Field) != "lastWatermark" || flow.IsNilConst(st.Val) {
					continue
				}
				owner := "?"
				if nt := namedOf(fa.X.Type()); nt != nil {
					owner = nt.Obj().Name()
				}
				n++
				emptyOnly := false
				for _, g := range flow.NormGuards(flow.Guards(b)) {
					bo, isB := g.Cond.(*ssa.BinOp)
					if !isB || bo.Op != token.EQL || !g.Side {
						continue
					}
					if k, isK := flow.ConstInt(bo.Y); !isK || k != 0 {
						continue
					}
					if lc, isC := bo.X.(*ssa.Call); isC {
						if bi, isBi := lc.Call.Value.(*ssa.Builtin); isBi && bi.Name() == "len" {
							if p, _ := flow.FieldPath(lc.Call.Args[0]); strings.HasSuffix(p, "ReplicationTasks") {
								emptyOnly = true
							}
						}
					}
				}
				res.Check(emptyOnly, rule, fmt.Sprintf("%s: %s.lastWatermark is recorded only from watermark-only batches", shortFn(f), owner), instrPos(c.Prog, st), "store under len(ReplicationTasks) == 0", "lastWatermark is also recorded from batches that carry tasks: when a target shard registers while such a batch is still waiting for its target, the batch's exclusive high watermark is replayed to that shard as a watermark-only message, the idle target confirms it at once, and the source shard is acknowledged past tasks no target stream has received")
			}
		}
	}
	if n < 2 {
		res.Undec(rule, "writers of lastWatermark", "", fmt.Sprintf("%d stores found, 2 confirmed by hand (proxyStreamReceiver, intraProxyStreamReceiver)", n))
	}
}

// checkSilentTargets: see O1.8.
func checkSilentTargets(c *Ctx, res *report.Result, f *ssa.Function, rule string) {
	isEntry := func(x ssa.Instruction) bool {
		mu, ok := x.(*ssa.MapUpdate)
		if !ok {
			return false
		}
		_, fld, okf := flow.FieldLoadOf(mu.Map)
		return okf && fld == "ackByTarget"
	}
	// the task-bearing hand-over: DeliverMessagesToShardOwner calls outside the watermark-only branch
	var delivers []ssa.CallInstruction
	for _, call := range flow.Calls(f) {
		cc := call.Common()
		if !cc.IsInvoke() || cc.Method.Name() != "DeliverMessagesToShardOwner" {
			continue
		}
		inEmpty := false
		for _, g := range flow.NormGuards(flow.Guards(call.Block())) {
			if bo, isB := g.Cond.(*ssa.BinOp); isB && bo.Op == token.EQL && g.Side {
				if k, isK := flow.ConstInt(bo.Y); isK && k == 0 {
					if lc, isC := bo.X.(*ssa.Call); isC {
						if bi, isBi := lc.Call.Value.(*ssa.Builtin); isBi && bi.Name() == "len" {
							inEmpty = true
						}
					}
				}
			}
		}
		if !inEmpty {
			delivers = append(delivers, call)
		}
	}
	if len(delivers) == 0 {
		res.Undec(rule, "recvReplicationMessages: task hand-over", fnPos(c.Prog, f), "no DeliverMessagesToShardOwner call outside the watermark-only branch")
		return
	}
	var recv ssa.Instruction
	for _, call := range flow.Calls(f) {
		if call.Common().IsInvoke() && call.Common().Method.Name() == "Recv" {
			recv = call
		}
	}
	if recv == nil {
		res.Undec(rule, "recvReplicationMessages: Recv", fnPos(c.Prog, f), "not found")
		return
	}
	// rangedMap: for a range key `k` of `for k, v := range M`, the Range instruction and M
	rangedMap := func(v ssa.Value) (*ssa.Range, ssa.Value) {
		ex, ok := flow.Strip(flow.ResolveLoad(v)).(*ssa.Extract)
		if !ok || ex.Index != 1 {
			return nil, nil
		}
		nx, ok := ex.Tuple.(*ssa.Next)
		if !ok {
			return nil, nil
		}
		rg, ok := nx.Iter.(*ssa.Range)
		if !ok {
			return nil, nil
		}
		return rg, flow.ResolveLoad(rg.X)
	}
	var entries []*ssa.MapUpdate
	for _, b := range f.Blocks {
		for _, ins := range b.Instrs {
			if isEntry(ins) {
				entries = append(entries, ins.(*ssa.MapUpdate))
			}
		}
	}
	_ = recv
	for _, d := range delivers {
		dRange, dMap := rangedMap(d.Common().Args[0])
		ensured := false
		for _, e := range entries {
			eRange, eMap := rangedMap(e.Key)
			if eRange == nil || dRange == nil || eMap != dMap {
				continue
			}
			if eRange == dRange {
				// same loop: the absent test precedes the hand-over and, with the "already present" edge pruned, no path
				// from the test to the hand-over avoids the entry creation
				if flow.InstrDominates(e, d) {
					ensured = true
				}
				for _, g := range flow.Guards(e.Block()) {
					ex, isEx := g.Cond.(*ssa.Extract)
					if !isEx || ex.Index != 1 {
						continue
					}
					lk, isL := ex.Tuple.(*ssa.Lookup)
					if !isL {
						continue
					}
					if _, fld, okf := flow.FieldLoadOf(lk.X); !okf || fld != "ackByTarget" {
						continue
					}
					if !flow.InstrDominates(lk, d) {
						continue
					}
					present := func(a, b *ssa.BasicBlock) bool {
						iff := lastIfOf(a)
						return iff != nil && iff.Cond == ssa.Value(ex) && len(a.Succs) == 2 && b == a.Succs[0]
					}
					r := flow.FindPath(flow.After(lk), func(x ssa.Instruction) bool { return x == ssa.Instruction(d) }, func(x ssa.Instruction) bool { return x == ssa.Instruction(e) }, func(a, b *ssa.BasicBlock) bool { return !present(a, b) })
					if !r.Found {
						ensured = true
					}
				}
			} else if eRange.Block().Dominates(d.Block()) {
				// a loop over the same target set that completes before the hand-over loop starts
				ensured = true
			}
		}
		res.Check(ensured, rule, "recvReplicationMessages: a target is entered into ackByTarget before tasks are handed to it", instrPos(c.Prog, d), "an entry is ensured for every key of the target set the hand-over ranges over, before the hand-over", "tasks are handed to a target shard without making sure it has an entry in ackByTarget: the acknowledgement sent upstream is the minimum over the targets that have acknowledged at least once, so while this target is silent the source shard is acknowledged past tasks it has not confirmed")
	}
	// the entry: only if absent, under ackMu, valued with the first task handed over
	for _, b := range f.Blocks {
		for _, ins := range b.Instrs {
			if !isEntry(ins) {
				continue
			}
			mu := ins.(*ssa.MapUpdate)
			pos := instrPos(c.Prog, mu)
			res.Check(flow.HeldAt(f, mu, "ackMu", true), rule, "recvReplicationMessages: ackByTarget entry created under ackMu", pos, "ok", "ackByTarget is written without ackMu (sendAck reads and writes it concurrently)")
			absent := false
			for _, g := range flow.NormGuards(flow.Guards(b)) {
				if ex, isEx := g.Cond.(*ssa.Extract); isEx && ex.Index == 1 && !g.Side {
					if lk, isL := ex.Tuple.(*ssa.Lookup); isL {
						if _, fld, okf := flow.FieldLoadOf(lk.X); okf && fld == "ackByTarget" && flow.SameValue(lk.Index, mu.Key) {
							absent = true
						}
					}
				}
			}
			res.Check(absent, rule, "recvReplicationMessages: ackByTarget entry created only when absent", pos, "if _, ok := ackByTarget[target]; !ok", "an existing entry (what the target has really confirmed) can be overwritten with a task id: the minimum could then rise above what that target confirmed")
			p, _ := flow.FieldPath(mu.Value)
			first := false
			if ld, isLd := flow.Strip(mu.Value).(*ssa.UnOp); isLd {
				v := ld.X
				for i := 0; i < 6 && v != nil; i++ {
					switch y := v.(type) {
					case *ssa.FieldAddr:
						v = y.X
						continue
					case *ssa.UnOp:
						v = y.X
						continue
					case *ssa.IndexAddr:
						if k, isK := flow.ConstInt(y.Index); isK && k == 0 {
							first = true
						}
					}
					break
				}
			}
			res.Check(first && (strings.HasSuffix(p, "SourceTaskId") || strings.HasSuffix(p, "TaskId")), rule, "recvReplicationMessages: the entry is the id of the first task handed to that target", pos, p, "the initial entry is "+p+": it must not exceed the first task handed over (tasks[0]'s id), otherwise the silent target does not hold the acknowledgement back far enough")
		}
	}
}
