package rules

import (
	"fmt"
	"go/token"
	"go/types"
	"sort"
	"strings"

	"golang.org/x/tools/go/ssa"

	"s2scheck/internal/flow"
	"s2scheck/internal/report"
)

// checkNoDerefOfKnownNil is a contradiction rule (a value is tested for nil and then dereferenced on the side on
// which the test found it nil): in the given files, on the nil side of `v == nil` / `v != nil`, or on the failed
// side of `v, ok := x.(*T)`, nothing dereferences v - also not through a fresh load of the same field path or of
// the variable v was spilled to. x/tools' nilness decides this for SSA registers only; guards of the form
// `p.f != nil && p.f.g ...` re-load p.f, which is where an `&&` turned into `||` hides. None of the goroutines that
// run the streams recovers a panic, so a nil dereference there ends the process with every stream on it.
func checkNoDerefOfKnownNil(c *Ctx, res *report.Result, rule string, files []string, minTests int) {
	var fs []*ssa.Function
	for _, f := range c.Prog.RepoFuncs() {
		if !isShippedFunc(f) || len(f.Blocks) == 0 {
			continue
		}
		pos := c.Prog.Pos(f.Pos())
		for _, fl := range files {
			if strings.HasPrefix(pos, fl) {
				fs = append(fs, f)
				break
			}
		}
	}
	sort.Slice(fs, func(i, j int) bool { return fs[i].String() < fs[j].String() })
	tests := 0
	var bad []string
	badPos := ""
	for _, f := range fs {
		for _, b := range f.Blocks {
			iff := lastIfOf(b)
			if iff == nil {
				continue
			}
			cond, side := iff.Cond, true
			for {
				if u, ok := cond.(*ssa.UnOp); ok && u.Op == token.NOT {
					cond, side = u.X, !side
					continue
				}
				break
			}
			var nilVal ssa.Value
			nilOnTrue := false
			switch x := cond.(type) {
			case *ssa.BinOp:
				if x.Op != token.EQL && x.Op != token.NEQ {
					continue
				}
				if flow.IsNilConst(x.Y) {
					nilVal = x.X
				} else if flow.IsNilConst(x.X) {
					nilVal = x.Y
				}
				nilOnTrue = (x.Op == token.EQL) == side
			case *ssa.Extract:
				if ta, ok := x.Tuple.(*ssa.TypeAssert); ok && ta.CommaOk && x.Index == 1 {
					switch ta.AssertedType.Underlying().(type) {
					case *types.Pointer, *types.Interface, *types.Map:
						for _, r := range *ta.Referrers() {
							if ex, isEx := r.(*ssa.Extract); isEx && ex.Index == 0 {
								nilVal = ex
							}
						}
						nilOnTrue = !side
					}
				}
			}
			if nilVal == nil {
				continue
			}
			switch nilVal.Type().Underlying().(type) {
			case *types.Pointer, *types.Interface:
			default:
				continue // nil maps and slices can be read
			}
			tests++
			nilSucc := b.Succs[1]
			if nilOnTrue {
				nilSucc = b.Succs[0]
			}
			if len(nilSucc.Preds) != 1 {
				continue
			}
			// what "the same value" can look like below the test
			var path string
			if p, ok := flow.FieldPath(nilVal); ok {
				path = p
			}
			var spill *ssa.Alloc
			if ex, ok := nilVal.(*ssa.Extract); ok {
				for _, r := range *ex.Referrers() {
					if st, isSt := r.(*ssa.Store); isSt && st.Val == ssa.Value(ex) {
						if al, isAl := st.Addr.(*ssa.Alloc); isAl {
							spill = al
						}
					}
				}
			}
			same := func(v ssa.Value) bool {
				if v == nilVal {
					return true
				}
				if ld, ok := v.(*ssa.UnOp); ok && ld.Op == token.MUL {
					if spill != nil && ld.X == ssa.Value(spill) {
						return true
					}
					if _, isFA := ld.X.(*ssa.FieldAddr); isFA && path != "" {
						if _, isLd := nilVal.(*ssa.UnOp); isLd {
							if p, ok := flow.FieldPath(v); ok && p == path && (flow.SameValue(v, nilVal) || sameLoadChain(v, nilVal, 0)) {
								return true
							}
						}
					}
				}
				return false
			}
			// stores that may make it non-nil again end the region
			writes := func(ins ssa.Instruction) bool {
				st, ok := ins.(*ssa.Store)
				if !ok {
					return false
				}
				if spill != nil && st.Addr == ssa.Value(spill) {
					return true
				}
				if fa, isFA := st.Addr.(*ssa.FieldAddr); isFA && path != "" {
					if _, fresh := fa.X.(*ssa.Alloc); fresh {
						return false // a field of an object under construction, not the tested one
					}
					if strings.HasSuffix(path, "."+flow.FieldName(fa.X.Type(), fa.Field)) {
						return true
					}
				}
				return false
			}
			isDeref := func(ins ssa.Instruction) bool {
				switch x := ins.(type) {
				case *ssa.FieldAddr:
					return same(x.X)
				case *ssa.IndexAddr:
					return same(x.X)
				case *ssa.UnOp:
					return x.Op == token.MUL && same(x.X)
				case ssa.CallInstruction:
					cc := x.Common()
					if cc.IsInvoke() {
						return same(cc.Value)
					}
				}
				return false
			}
			r := flow.FindPath(flow.Point{Block: nilSucc}, isDeref, writes, func(a, b2 *ssa.BasicBlock) bool { return nilSucc.Dominates(b2) })
			if r.Found {
				bad = append(bad, fmt.Sprintf("%s: %s is dereferenced at %s on the side on which the test at %s found it nil", shortFn(f), flow.Describe(nilVal), instrPos(c.Prog, r.End), instrPos(c.Prog, iff)))
				if badPos == "" {
					badPos = instrPos(c.Prog, r.End)
				}
			}
		}
	}
	construct := "no value is dereferenced on the side on which it was just found nil (" + strings.Join(files, ", ") + ")"
	if len(bad) > 0 {
		res.Viol(rule, construct, badPos, strings.Join(bad, "; ")+" - an unrecovered panic in a stream worker or handler ends the process")
	} else {
		res.Hold(rule, construct, "", fmt.Sprintf("%d nil tests examined in %d functions", tests, len(fs)))
	}
	if tests < minTests {
		res.Undec(rule, "nil tests examined", "", fmt.Sprintf("%d found, at least %d expected", tests, minTests))
	}
}

// sameLoadChain: a and b are loads of the same field of the same base, the bases being the identical SSA value or
// again such loads (x.f.g read twice).
func sameLoadChain(a, b ssa.Value, d int) bool {
	if a == b {
		return true
	}
	if d > 4 {
		return false
	}
	la, ok1 := a.(*ssa.UnOp)
	lb, ok2 := b.(*ssa.UnOp)
	if !ok1 || !ok2 || la.Op != token.MUL || lb.Op != token.MUL {
		return false
	}
	fa, ok1 := la.X.(*ssa.FieldAddr)
	fb, ok2 := lb.X.(*ssa.FieldAddr)
	if !ok1 || !ok2 || fa.Field != fb.Field {
		return false
	}
	return sameLoadChain(flow.ResolveLoad(fa.X), flow.ResolveLoad(fb.X), d+1) || fa.X == fb.X
}
