package rules

import (
	"go/types"

	"s2scheck/internal/typegraph"
)

// walkSASites lists search-attribute containers below t: *common.SearchAttributes values and
// map[string]*common.Payload fields whose name mentions search attributes.
func walkSASites(m *apiModel, t types.Type) map[string]string {
	out := map[string]string{}
	m.w.Walk(t, func(n *typegraph.Node) bool {
		if n.Holder == typegraph.StructField && n.Owner != nil {
			if isSAContainer(n.Field) {
				out[typegraph.SiteKey(n.Owner, n.Field)] = typegraph.ShortType(n.Type) + "|" + n.PathString()
			}
		}
		return true
	})
	return out
}
