package rules

import (
	"fmt"
	"go/token"
	"go/types"
	"sort"
	"strings"

	"golang.org/x/tools/go/ssa"

	"s2scheck/internal/flow"
	"s2scheck/internal/report"
	"s2scheck/internal/typegraph"
)

func init() { Registry["C14"] = c14 }

// walkSASites lists search-attribute containers below t: *common.SearchAttributes values and
// map[string]*common.Payload fields whose name mentions search attributes.
func walkSASites(m *apiModel, t types.Type) map[string]string {
	out := map[string]string{}
	m.w.Walk(t, func(n *typegraph.Node) bool {
		if n.Holder == typegraph.StructField && n.Owner != nil {
			if isSAContainer(n.Field) {
				out[typegraph.SiteKey(n.Owner, n.Field)] = typegraph.ShortType(n.Type) + "|" + n.PathString()
			}
		}
		return true
	})
	return out
}

func c14(c *Ctx) (*report.Result, error) {
	res := newResult("C14")
	res.RuleDoc["O14.1"] = "container coverage: every search-attribute container (*common.SearchAttributes, or map[string]*common.Payload named ...SearchAttributes) below an AdminService message or a history event is a struct field named in searchAttributeFieldNames with a type handled by visitSearchAttributes; events blobs below AdminService messages are decoded"
	res.RuleDoc["O14.2"] = "no abort before a container: a field named in searchAttributeFieldNames whose type is not handled makes the visitor stop with an error, so no root may contain such a field together with a handled container; Skip/Stop classes of the visitor are the reviewed ones"
	res.RuleDoc["O14.3"] = "key rebuild keeps values: translateIndexedFields stores exactly once per input entry into a fresh map, the stored value is the entry's own value, the key is the input key or the matcher's result chosen by the matcher's verdict, and the input map is never written"
	res.RuleDoc["O14.4"] = "service filter: the search-attribute translator's MatchMethod is the negated WorkflowService prefix test, the unary interceptor consults MatchMethod before every translate call, and WorkflowService has no streaming method"
	res.RuleDoc["O14.5"] = "direction: same orientation obligations as O13.1 applied to the search-attribute maps"
	res.Floors["O14.1"] = 6

	m, err := loadAPIModel(c)
	if err != nil {
		return res, err
	}
	tabs, err := readInterceptorTables(c)
	if err != nil {
		return res, err
	}
	saTypes, err := typeSwitchCases(tabs.pk, "visitSearchAttributes")
	if err != nil {
		return res, err
	}
	handled := func(t types.Type) bool {
		for _, h := range saTypes {
			if typegraph.ShortType(h) == typegraph.ShortType(t) {
				return true
			}
		}
		return false
	}
	// ---- O14.1 / O14.2
	hePkg := m.pkgs[histPkg]
	heObj, _ := hePkg.Scope().Lookup("HistoryEvent").(*types.TypeName)
	if heObj == nil {
		return res, fmt.Errorf("anchor: history.HistoryEvent not found")
	}
	roots := []apiRoot{{Service: "blob", Method: "events", Role: "content", Type: heObj.Type().(*types.Named)}}
	for _, r := range m.roots {
		if r.Service == "AdminService" {
			roots = append(roots, r)
		}
	}
	allSites := map[string]string{}
	paths := 0
	for _, r := range roots {
		handledHere, unhandledNamed := []string{}, []string{}
		m.w.Walk(types.NewPointer(r.Type), func(n *typegraph.Node) bool {
			paths++
			if n.Holder != typegraph.StructField || n.Owner == nil {
				return true
			}
			key := typegraph.SiteKey(n.Owner, n.Field)
			if isSAContainer(n.Field) {
				if _, ok := allSites[key]; !ok {
					allSites[key] = typegraph.ShortType(n.Type) + "|" + r.Name() + ": " + n.PathString()
				}
				if tabs.saNames[n.Field.Name()] && handled(n.Type) {
					handledHere = append(handledHere, key)
				}
			} else if tabs.saNames[n.Field.Name()] && !handled(n.Type) {
				unhandledNamed = append(unhandledNamed, key+" ("+typegraph.ShortType(n.Type)+")")
			}
			// events blobs below admin messages must be decoded for the SA walk as well
			if form := dataBlobForm(n.Type); form != "" && r.Service == "AdminService" {
				if cls, ok := dataBlobClass[key]; ok && cls[0] == "events" {
					k2 := "blob " + key
					if _, seen := allSites[k2]; !seen {
						allSites[k2] = form + "|" + r.Name() + ": " + n.PathString()
					}
				}
			}
			return true
		})
		if len(unhandledNamed) > 0 {
			sort.Strings(unhandledNamed)
			construct := "root " + r.Name()
			if len(handledHere) > 0 {
				res.Viol("O14.2", construct, "", "the message holds both a field that makes visitSearchAttributes stop with an error ("+strings.Join(unhandledNamed, ", ")+") and a real container ("+strings.Join(handledHere, ", ")+"): depending on walk order the container is never translated")
			} else {
				res.Hold("O14.2", construct, "", "field(s) named like a container but of another type ("+strings.Join(unhandledNamed, ", ")+") abort the walk with an error; the message holds no real container, nothing is lost")
			}
		}
	}
	for _, k := range sortedKeys(allSites) {
		parts := strings.SplitN(allSites[k], "|", 2)
		if strings.HasPrefix(k, "blob ") {
			field := k[strings.LastIndex(k, ".")+1:]
			res.Check(tabs.blobNames[field], "O14.1", k, "", "events blob decoded by visitSearchAttributes (name in dataBlobFieldNames)", "events blob below an AdminService message is not decoded: search attributes inside it keep their keys; "+parts[1])
			continue
		}
		field := k[strings.LastIndex(k, ".")+1:]
		// type of the site
		switch {
		case !tabs.saNames[field]:
			res.Viol("O14.1", k, "", "search-attribute container in a field whose Go name "+field+" is not in searchAttributeFieldNames", parts[1])
		case !handledTypeString(parts[0], saTypes):
			res.Viol("O14.1", k, "", "container type "+parts[0]+" is not a case of the type switch in visitSearchAttributes", parts[1])
		default:
			res.Hold("O14.1", k, "", parts[0]+"; e.g. "+parts[1])
		}
	}
	checkWalkCuts(c, res, "O14.2")
	checkBlobExamined(c, res, "O14.2")

	// ---- O14.3
	if f := resolve(c, res, "O14.3", anchor{"interceptor", "", "translateIndexedFields"}); f != nil {
		checkTranslateIndexedFields(c, res, f)
	}
	// ---- O14.4
	checkSAMethodFilter(c, res, m)
	// ---- O14.5
	checkTranslationOrientation(c, res, "O14.5", false, true)

	res.Explanation = fmt.Sprintf("Type-graph walk from the %d AdminService message roots plus history.HistoryEvent (content of events blobs), %d type paths: every search-attribute container must be named in searchAttributeFieldNames (read from source) with a type handled by visitSearchAttributes' type switch, and no root mixes an aborting look-alike field with a real container. SSA of translateIndexedFields (exactly one store per entry, value identity, key choice control-dependent on the matcher, input never written), of NewSearchAttributeTranslator's method filter and the interceptor's use of it, and the orientation obligations shared with C13. Does not decide behaviour under key collisions.", len(roots)-1, paths)
	res.Extra["exhaustive"] = true
	res.Extra["type_paths"] = paths
	res.Assumptions = []string{"a search-attribute container is *common.SearchAttributes or a map[string]*common.Payload whose field name mentions search attributes (the two forms the property names)"}
	res.RuleDoc["O14.7"] = "translation, access control and repair keep no memory between messages: no shipped function of the interceptor, proto/compat, auth and collect packages stores into package-level state, receiver fields or sync.Maps after construction - a cache keyed by message type or content makes the treatment of one message depend on the ones before it"
	checkStateless(c, res, "O14.7", []string{"interceptor", "proto/compat", "auth", "collect"}, map[string]string{})
	res.RuleDoc["O14.10"] = "every key is renamed exactly once: no handled container type has, among its own fields, a field that the walker would recognise as a container again (name in searchAttributeFieldNames, type handled) while the callback lets the library descend into a container it has just rebuilt - a second pass renames chained or swapped mappings twice"
	{
		descends := false
		if f := resolve(c, res, "O14.10", anchor{"interceptor", "", "visitSearchAttributes"}); f != nil {
			if cb := visitCallback(f); cb != nil {
				for _, call := range flow.Calls(cb) {
					sc := flow.StaticCallee(call.Common())
					if sc == nil || sc.Name() != "translateIndexedFields" {
						continue
					}
					for _, b := range cb.Blocks {
						for _, ins := range b.Instrs {
							ret, ok := ins.(*ssa.Return)
							if !ok || len(ret.Results) < 1 || !flow.ReachBlock(call.Block(), b, nil) {
								continue
							}
							for _, alt := range actionAlts(flow.Ret(ret)[0], b, 0) {
								if alt.val == "Continue" && (alt.block == call.Block() || flow.ReachBlock(call.Block(), alt.block, nil)) {
									descends = true
								}
							}
						}
					}
				}
			}
		}
		n := 0
		for _, h := range saTypes {
			pt, ok := h.Underlying().(*types.Pointer)
			if !ok {
				continue
			}
			st, ok := pt.Elem().Underlying().(*types.Struct)
			if !ok {
				continue
			}
			for i := 0; i < st.NumFields(); i++ {
				fl := st.Field(i)
				if !fl.Exported() {
					continue
				}
				n++
				again := tabs.saNames[fl.Name()] && handledTypeString(typegraph.ShortType(fl.Type()), saTypes)
				res.Check(!(again && descends), "O14.10", "field "+fl.Name()+" of the handled container "+typegraph.ShortType(h)+" is not a container to the walker", "", "not in searchAttributeFieldNames with a handled type (or the callback skips the rebuilt container)", "the walker descends into the "+typegraph.ShortType(h)+" it has just rebuilt and recognises its field "+fl.Name()+" as a container again: every key is passed through the mapping a second time - with a -> b, b -> c configured, a arrives as c; with a swap, nothing is renamed")
			}
		}
		if n == 0 {
			res.Undec("O14.10", "fields of the handled struct containers", "", "no handled container of struct type found")
		}
	}
	res.RuleDoc["O14.13"] = "every mapped key is found, whatever its spelling: the string matcher behind the search-attribute (and namespace) translators is one exact comma-ok map lookup of the unmodified input (same analysis as O13.2) - a pre-filter on length, case or prefix in front of the lookup rejects some configured keys in one direction only"
	checkExactMatch(c, res, "O14.13")
	res.RuleDoc["O14.14"] = "search-attribute keys inside a history blob are reached whatever the batch consists of: translateOneDataBlob hands every decoded blob to the visitor before any successful return (same analysis as O13.14) - the namespace skip list includes the upsert-search-attributes event"
	checkDecodedBlobAlwaysWalked(c, res, "O14.14")
	res.RuleDoc["O14.12"] = "every message is handed, whole, to the search-attribute visitor: saTranslator.TranslateRequest / TranslateResponse reach visitSearchAttributes with their own parameter on every path - a fast path that walks only the task kinds thought to carry search attributes misses the containers everywhere else (a mutable-state snapshot in a SyncWorkflowState task, say)"
	checkTranslatorAlwaysVisits(c, res, "O14.12", []string{"saTranslator"})
	res.RuleDoc["O14.11"] = "a translated blob comes back whole: translateOneDataBlob returns its input untouched or the serializer's own new blob, and never stores into a field of the blob it was given (the serializer writes proto3 and labels it so)"
	checkInputBlobNotWritten(c, res, "O14.11")
	res.RuleDoc["O14.9"] = "one matcher, chosen by configuration and not by map order: the translator returns the first entry of its per-namespace matcher map, so that map must have at most one entry - makeServerOptions refuses LenNamespaces() > 1 before building the translator, LenNamespaces is the length of the map FlattenMaps ranges over, and FlattenMaps / createStringMatchers emit exactly one entry per element"
	checkSingleNamespaceGuard(c, res, "O14.9")
	res.RuleDoc["O14.8"] = "no swallowed error in the files the mechanism lives in: no function returns a nil error on a path on which an error obtained from a call is known to be non-nil (io.EOF from a stream Recv, the normal end of a receive loop, is the one accepted idiom)"
	checkNoSwallowedErrors(c, res, "O14.8", []string{"interceptor/search_attribute_translator.go", "interceptor/reflection.go", "interceptor/translation_interceptor.go"})
	return res, nil
}

func handledTypeString(ts string, handled []types.Type) bool {
	for _, h := range handled {
		if typegraph.ShortType(h) == ts {
			return true
		}
	}
	return false
}

func checkTranslateIndexedFields(c *Ctx, res *report.Result, f *ssa.Function) {
	rule := "O14.3"
	in := f.Params[0]
	var mk *ssa.MakeMap
	var updates []*ssa.MapUpdate
	var next *ssa.Next
	for _, b := range f.Blocks {
		for _, ins := range b.Instrs {
			switch x := ins.(type) {
			case *ssa.MakeMap:
				mk = x
			case *ssa.MapUpdate:
				updates = append(updates, x)
			case *ssa.Next:
				next = x
			}
		}
	}
	if next != nil && len(updates) > 0 {
		// the input map written in place (also when a fresh map exists): a rename inserted while the map is being
		// ranged over may be visited again and renamed twice (chained mappings a->b, b->c), and the caller's message
		// is mutated even when the result is discarded
		inPlace := false
		for _, u := range updates {
			if flow.ResolveLoad(u.Map) == ssa.Value(in) {
				inPlace = true
				res.Viol(rule, "translateIndexedFields: input map is never written", instrPos(c.Prog, u), "the input map is written while it is being ranged over: an inserted renamed key can be visited again and renamed a second time")
			}
		}
		if inPlace && mk == nil {
			return
		}
	}
	if mk == nil || next == nil || len(updates) == 0 {
		res.Undec(rule, "translateIndexedFields: shape", fnPos(c.Prog, f), "expected a fresh map, a range over the input and map stores")
		return
	}
	rng, _ := next.Iter.(*ssa.Range)
	res.Check(rng != nil && rng.X == ssa.Value(in), rule, "translateIndexedFields: ranges over the input map", instrPos(c.Prog, next), "range fields", "the loop does not range over the input map: entries can be lost")
	var kv, vv ssa.Value
	for _, r := range *next.Referrers() {
		if ex, ok := r.(*ssa.Extract); ok {
			if ex.Index == 1 {
				kv = ex
			}
			if ex.Index == 2 {
				vv = ex
			}
		}
	}
	// matcher call on the key
	var mcall *ssa.Call
	for _, call := range flow.Calls(f) {
		cc := call.Common()
		if cc.Value == ssa.Value(f.Params[1]) {
			mcall, _ = call.(*ssa.Call)
		}
	}
	okMatcherArg := mcall != nil && len(mcall.Call.Args) == 1 && mcall.Call.Args[0] == kv
	res.Check(okMatcherArg, rule, "translateIndexedFields: matcher applied to the entry's key", fnPos(c.Prog, f), "match(key)", "the matcher is not applied to each entry's key")
	var newKey, verdict ssa.Value
	if mcall != nil {
		for _, r := range *mcall.Referrers() {
			if ex, ok := r.(*ssa.Extract); ok {
				if ex.Index == 0 {
					newKey = ex
				}
				if ex.Index == 1 {
					verdict = ex
				}
			}
		}
	}
	for i, u := range updates {
		construct := fmt.Sprintf("translateIndexedFields: store #%d", i+1)
		pos := instrPos(c.Prog, u)
		if u.Map != ssa.Value(mk) {
			res.Viol(rule, construct, pos, "a map other than the fresh result map is written (the input map must stay untouched)")
			continue
		}
		if u.Value != vv {
			res.Viol(rule, construct, pos, "the stored value is not the entry's own value: search-attribute values must be untouched")
			continue
		}
		switch u.Key {
		case kv:
			res.Hold(rule, construct, pos, "result[key] = value (unmapped or unchanged key preserved)")
		case newKey:
			// must be on the verdict-true side
			ok := false
			for _, g := range flow.NormGuards(flow.Guards(u.Block())) {
				if g.Cond == verdict && g.Side {
					ok = true
				}
			}
			res.Check(ok, rule, construct, pos, "result[newKey] = value under matched", "the renamed key is stored without the matcher having matched")
		default:
			// key chosen first, stored once: phi(key, newKey) where the newKey edge lies on the matched side
			if phi, isPhi := u.Key.(*ssa.Phi); isPhi {
				okPhi := true
				for i, e := range phi.Edges {
					switch e {
					case kv:
					case newKey:
						onMatched := false
						for _, g := range flow.NormGuards(flow.EdgeGuards(phi.Block().Preds[i], phi.Block())) {
							if g.Cond == verdict && g.Side {
								onMatched = true
							}
						}
						if !onMatched {
							okPhi = false
						}
					default:
						okPhi = false
					}
				}
				res.Check(okPhi, rule, construct, pos, "result[key or newKey-if-matched] = value", "the key stored is neither the entry's key nor the matcher's result under matched")
				continue
			}
			res.Viol(rule, construct, pos, "the key stored is neither the entry's key nor the matcher's result")
		}
	}
	// exactly one store per iteration: from the loop body no path back to the loop head avoids a store,
	// and no store is followed by another store before the head
	head := next.Block()
	body := head.Succs[0]
	isUpd := func(ins ssa.Instruction) bool { _, ok := ins.(*ssa.MapUpdate); return ok }
	isHead := func(ins ssa.Instruction) bool { return ins == ssa.Instruction(next) }
	r := flow.FindPath(flow.Point{Block: body}, isHead, isUpd, nil)
	res.Check(!r.Found, rule, "translateIndexedFields: every entry is stored", instrPos(c.Prog, next), "no path through the loop body skips the store", "an iteration can complete without storing the entry: keys would be dropped ("+flow.BlockPath(r.Via)+")")
	twice := false
	for _, u := range updates {
		r2 := flow.FindPath(flow.After(u), isUpd, isHead, nil)
		if r2.Found {
			twice = true
		}
	}
	res.Check(!twice, rule, "translateIndexedFields: at most one store per entry", instrPos(c.Prog, next), "stores are on exclusive branches", "an entry can be stored under two keys in one iteration")
	// returns the fresh map on the non-nil path
	okRet := false
	for _, b := range f.Blocks {
		for _, ins := range b.Instrs {
			if ret, ok := ins.(*ssa.Return); ok && flow.Ret(ret)[0] == ssa.Value(mk) {
				okRet = true
			}
		}
	}
	res.Check(okRet, rule, "translateIndexedFields: returns the rebuilt map", fnPos(c.Prog, f), "ok", "the rebuilt map is not returned")
}

func checkSAMethodFilter(c *Ctx, res *report.Result, m *apiModel) {
	rule := "O14.4"
	wfP, _, err := servicePrefixes(c)
	if err != nil {
		res.Undec(rule, "service prefixes", "", err.Error())
		return
	}
	ctor := resolve(c, res, rule, anchor{"interceptor", "", "NewSearchAttributeTranslator"})
	if ctor != nil {
		// the closure stored in matchMethod
		var cl *ssa.Function
		for _, b := range ctor.Blocks {
			for _, ins := range b.Instrs {
				if st, ok := ins.(*ssa.Store); ok {
					if fa, ok := st.Addr.(*ssa.FieldAddr); ok && flow.FieldName(fa.X.Type(), fa.Field) == "matchMethod" {
						switch v := flow.Strip(st.Val).(type) {
						case *ssa.Function:
							cl = v
						case *ssa.MakeClosure:
							cl, _ = v.Fn.(*ssa.Function)
						}
					}
				}
			}
		}
		ok := false
		why := "matchMethod is not a closure the checker can read"
		if cl != nil {
			why = "the filter is not !strings.HasPrefix(method, api.WorkflowServicePrefix)"
			for _, b := range cl.Blocks {
				for _, ins := range b.Instrs {
					ret, isR := ins.(*ssa.Return)
					if !isR {
						continue
					}
					if u, isU := flow.Ret(ret)[0].(*ssa.UnOp); isU && u.Op == token.NOT {
						if call, isC := u.X.(*ssa.Call); isC && flow.IsCallTo(&call.Call, "strings", "", "HasPrefix") {
							if s, isS := flow.ConstString(call.Call.Args[1]); isS && s == wfP && call.Call.Args[0] == ssa.Value(cl.Params[0]) {
								ok = true
							}
						}
					}
				}
			}
		}
		res.Check(ok, rule, "NewSearchAttributeTranslator: matchMethod excludes exactly the WorkflowService prefix", fnPos(c.Prog, ctor), "!HasPrefix(method, "+wfP+")", why)
	}
	if f := resolve(c, res, rule, anchor{"interceptor", "*saTranslator", "MatchMethod"}); f != nil {
		u := methodUsesFields(f)
		res.Check(u["matchMethod"], rule, "saTranslator.MatchMethod delegates to matchMethod", fnPos(c.Prog, f), "ok", "MatchMethod does not use the configured filter")
	}
	if f := resolve(c, res, rule, anchor{"interceptor", "*TranslationInterceptor", "Intercept"}); f != nil {
		n := 0
		for _, call := range flow.Calls(f) {
			cc := call.Common()
			if !cc.IsInvoke() || (cc.Method.Name() != "TranslateRequest" && cc.Method.Name() != "TranslateResponse") {
				continue
			}
			n++
			ok := false
			for _, g := range flow.NormGuards(flow.Guards(call.Block())) {
				if gc, isC := g.Cond.(*ssa.Call); isC && g.Side && gc.Call.IsInvoke() && gc.Call.Method.Name() == "MatchMethod" && gc.Call.Value == cc.Value {
					if p, okp := flow.FieldPath(gc.Call.Args[0]); okp && strings.HasSuffix(p, ".FullMethod") {
						ok = true
					}
				}
			}
			// or the translator comes out of a helper that admits exactly the translators whose
			// MatchMethod(info.FullMethod) is true
			if !ok {
				if ld, isLd := cc.Value.(*ssa.UnOp); isLd && ld.Op == token.MUL {
					if ia, isIA := ld.X.(*ssa.IndexAddr); isIA {
						if hc, isC := flow.ResolveLoad(ia.X).(*ssa.Call); isC {
							if g := flow.StaticCallee(&hc.Call); g != nil {
								if pidx, isFilter := matchFilterSummary(g, "translators"); isFilter && pidx < len(hc.Call.Args) {
									if p, okp := flow.FieldPath(hc.Call.Args[pidx]); okp && strings.HasSuffix(p, ".FullMethod") {
										ok = true
									}
								}
							}
						}
					}
				}
			}
			res.Check(ok, rule, fmt.Sprintf("Intercept: %s guarded by the same translator's MatchMethod(info.FullMethod)", cc.Method.Name()), instrPos(c.Prog, call), "ok", "a translator is applied without consulting its MatchMethod for this RPC")
		}
		if n < 2 {
			res.Undec(rule, "Intercept: translate calls", fnPos(c.Prog, f), fmt.Sprintf("%d translate calls found", n))
		}
	}
	// WorkflowService has no streaming method (the stream wrapper does not consult MatchMethod)
	streams := 0
	for _, r := range m.roots {
		if r.Service == "WorkflowService" && strings.HasPrefix(r.Role, "stream") {
			streams++
		}
	}
	res.Check(streams == 0, rule, "WorkflowService has no streaming method", "", "the stream translator (which does not consult MatchMethod) can never carry a workflow-service response", fmt.Sprintf("%d streaming message roots in WorkflowService: the stream wrapper would translate aliases", streams))
}
