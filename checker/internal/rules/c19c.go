package rules

import (
	"golang.org/x/tools/go/ssa"

	"s2scheck/internal/flow"
	"s2scheck/internal/report"
)

// checkTLSGatePolarity (O19.9): GetServerTLSConfig / GetClientTLSConfig hand back "no TLS" (a nil config with a nil
// error, which every caller takes as "serve / dial in plaintext") only on the side on which TLSConfig.IsEnabled()
// is false. The truth table of IsEnabled is O19.6; this is the polarity of its one use in each builder.
func checkTLSGatePolarity(c *Ctx, res *report.Result, rule string) {
	for _, name := range []string{"GetServerTLSConfig", "GetClientTLSConfig"} {
		f := resolve(c, res, rule, anchor{"encryption", "", name})
		if f == nil {
			continue
		}
		n := 0
		for _, b := range f.Blocks {
			for _, ins := range b.Instrs {
				ret, ok := ins.(*ssa.Return)
				if !ok || len(ret.Results) != 2 {
					continue
				}
				vals := flow.Ret(ret)
				// a nil config: the constant nil, or the named result that nothing was stored to on this path
				cfgNil := flow.IsNilConst(vals[0])
				if !cfgNil {
					if ld, isLd := vals[0].(*ssa.UnOp); isLd {
						if al, isAl := ld.X.(*ssa.Alloc); isAl {
							// named result cell: nil unless a store reaches this return
							stored := false
							for _, r := range *al.Referrers() {
								if st, isSt := r.(*ssa.Store); isSt && st.Addr == ssa.Value(al) && !flow.IsNilConst(st.Val) {
									if flow.ReachBlock(st.Block(), b, nil) {
										stored = true
									}
								}
							}
							cfgNil = !stored
						}
					}
				}
				errNil := flow.IsNilConst(vals[1])
				if !errNil {
					if ld, isLd := vals[1].(*ssa.UnOp); isLd {
						if al, isAl := ld.X.(*ssa.Alloc); isAl {
							stored := false
							for _, r := range *al.Referrers() {
								if st, isSt := r.(*ssa.Store); isSt && st.Addr == ssa.Value(al) && !flow.IsNilConst(st.Val) && flow.ReachBlock(st.Block(), b, nil) {
									stored = true
								}
							}
							errNil = !stored
						}
					}
				}
				if !cfgNil || !errNil {
					continue
				}
				n++
				okGate := false
				for _, g := range flow.NormGuards(flow.Guards(b)) {
					if call, isC := g.Cond.(*ssa.Call); isC {
						if sc := flow.StaticCallee(&call.Call); sc != nil && sc.Name() == "IsEnabled" && !g.Side {
							okGate = true
						}
					}
				}
				res.Check(okGate, rule, name+": 'no TLS' is returned only when the settings do not enable TLS", instrPos(c.Prog, ret), "nil config, nil error under !IsEnabled()", "a nil tls.Config is returned without an error on a path on which IsEnabled() was not found false: an endpoint whose settings ask for TLS is served / dialled in plaintext, and any peer completes a connection")
			}
		}
		if n == 0 {
			res.Undec(rule, name+": the 'TLS disabled' return", fnPos(c.Prog, f), "no return of a nil config with a nil error found")
		}
	}
}
