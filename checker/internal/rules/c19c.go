package rules

import (
	"strings"
	"fmt"
	"golang.org/x/tools/go/ssa"

	"s2scheck/internal/flow"
	"s2scheck/internal/report"
)

// checkTLSGatePolarity (O19.9): GetServerTLSConfig / GetClientTLSConfig hand back "no TLS" (a nil config with a nil
// error, which every caller takes as "serve / dial in plaintext") only on the side on which TLSConfig.IsEnabled()
// is false. The truth table of IsEnabled is O19.6; this is the polarity of its one use in each builder.
func checkTLSGatePolarity(c *Ctx, res *report.Result, rule string) {
	for _, name := range []string{"GetServerTLSConfig", "GetClientTLSConfig"} {
		f := resolve(c, res, rule, anchor{"encryption", "", name})
		if f == nil {
			continue
		}
		n := 0
		for _, b := range f.Blocks {
			for _, ins := range b.Instrs {
				ret, ok := ins.(*ssa.Return)
				if !ok || len(ret.Results) != 2 {
					continue
				}
				vals := flow.Ret(ret)
				// a nil config: the constant nil, or the named result that nothing was stored to on this path
				cfgNil := flow.IsNilConst(vals[0])
				if !cfgNil {
					if ld, isLd := vals[0].(*ssa.UnOp); isLd {
						if al, isAl := ld.X.(*ssa.Alloc); isAl {
							// named result cell: nil unless a store reaches this return
							stored := false
							for _, r := range *al.Referrers() {
								if st, isSt := r.(*ssa.Store); isSt && st.Addr == ssa.Value(al) && !flow.IsNilConst(st.Val) {
									if flow.ReachBlock(st.Block(), b, nil) {
										stored = true
									}
								}
							}
							cfgNil = !stored
						}
					}
				}
				errNil := flow.IsNilConst(vals[1])
				if !errNil {
					if ld, isLd := vals[1].(*ssa.UnOp); isLd {
						if al, isAl := ld.X.(*ssa.Alloc); isAl {
							stored := false
							for _, r := range *al.Referrers() {
								if st, isSt := r.(*ssa.Store); isSt && st.Addr == ssa.Value(al) && !flow.IsNilConst(st.Val) && flow.ReachBlock(st.Block(), b, nil) {
									stored = true
								}
							}
							errNil = !stored
						}
					}
				}
				if !cfgNil || !errNil {
					continue
				}
				n++
				okGate := false
				for _, g := range flow.NormGuards(flow.Guards(b)) {
					if call, isC := g.Cond.(*ssa.Call); isC {
						if sc := flow.StaticCallee(&call.Call); sc != nil && sc.Name() == "IsEnabled" && !g.Side {
							okGate = true
						}
					}
				}
				res.Check(okGate, rule, name+": 'no TLS' is returned only when the settings do not enable TLS", instrPos(c.Prog, ret), "nil config, nil error under !IsEnabled()", "a nil tls.Config is returned without an error on a path on which IsEnabled() was not found false: an endpoint whose settings ask for TLS is served / dialled in plaintext, and any peer completes a connection")
			}
		}
		if n == 0 {
			res.Undec(rule, name+": the 'TLS disabled' return", fnPos(c.Prog, f), "no return of a nil config with a nil error found")
		}
	}
}

// checkClientRecvLimit (O6.14): the client connections the relays read replication messages with accept messages
// up to Temporal's internode limit: MakeDialOptions passes grpc.MaxCallRecvMsgSize(c), c a constant of at least
// 128 MiB, to grpc.WithDefaultCallOptions. Without it gRPC's default of 4 MiB applies to what the proxy receives:
// a larger replication batch fails the relay's Recv with ResourceExhausted, the forwarder ends the stream as if
// the source had closed it, and the batch - and everything after it - is dropped on every reconnect.
func checkClientRecvLimit(c *Ctx, res *report.Result, rule string) {
	f := resolve(c, res, rule, anchor{"transport/grpcutil", "", "MakeDialOptions"})
	if f == nil {
		return
	}
	const internodeLimit = 128 * 1024 * 1024
	var lim *ssa.Call
	for _, call := range flow.Calls(f) {
		if flow.IsCallTo(call.Common(), "google.golang.org/grpc", "", "MaxCallRecvMsgSize") {
			lim, _ = call.(*ssa.Call)
		}
	}
	construct := "MakeDialOptions: the relay clients accept messages up to the internode limit"
	if lim == nil {
		res.Viol(rule, construct, fnPos(c.Prog, f), "no grpc.MaxCallRecvMsgSize among the dial options: gRPC's 4 MiB default applies to every message the proxy receives from a cluster, and a larger replication batch ends the relay as if the source had closed the stream")
		return
	}
	k, isK := flow.ConstInt(lim.Call.Args[0])
	if !isK || k < internodeLimit {
		res.Viol(rule, construct, instrPos(c.Prog, lim), "the receive limit is not a constant of at least 128 MiB (Temporal's internode maximum): replication batches between the limit and 128 MiB are refused by the proxy's own client")
		return
	}
	// it reaches WithDefaultCallOptions
	reaches := false
	var seen = map[ssa.Value]bool{}
	var walk func(v ssa.Value, d int)
	walk = func(v ssa.Value, d int) {
		if d > 6 || seen[v] || v.Referrers() == nil {
			return
		}
		seen[v] = true
		for _, r := range *v.Referrers() {
			switch x := r.(type) {
			case *ssa.Store:
				if ia, ok := x.Addr.(*ssa.IndexAddr); ok {
					walk(ia.X, d+1)
				}
			case *ssa.Slice:
				walk(x, d+1)
			case *ssa.MakeInterface:
				walk(x, d+1)
			case *ssa.ChangeInterface:
				walk(x, d+1)
			case *ssa.Call:
				if flow.IsCallTo(&x.Call, "google.golang.org/grpc", "", "WithDefaultCallOptions") {
					reaches = true
				}
			case *ssa.IndexAddr:
				walk(x, d+1)
			}
		}
	}
	walk(lim, 0)
	res.Check(reaches, rule, construct, instrPos(c.Prog, lim), "grpc.WithDefaultCallOptions(.., grpc.MaxCallRecvMsgSize(128 MiB), ..)", "the receive limit option is built but not handed to grpc.WithDefaultCallOptions")
}

// checkYamuxKeepAlive (O10.12): both session factories (the establisher's and the receiver's) hand yamux a config
// with keep-alive enabled: the config passed to yamux.Client / yamux.Server is the result of yamux.DefaultConfig()
// (which enables it) with no store of EnableKeepAlive = false, or a literal that sets EnableKeepAlive = true. The
// keep-alive goroutine is the only code that turns an unanswered ping into a closed session; without it a silently
// dead peer keeps its pool slot for ever and the pool never heals.
func checkYamuxKeepAlive(c *Ctx, res *report.Result, rule string) {
	const yamuxPkg = "github.com/hashicorp/yamux"
	n := 0
	for _, name := range []string{"NewMuxEstablisherProvider", "NewMuxReceiverProvider"} {
		f := resolve(c, res, rule, anchor{"transport/mux", "", name})
		if f == nil {
			continue
		}
		for _, g := range append([]*ssa.Function{f}, flow.AnonFuncsDeep(f)...) {
			for _, call := range flow.Calls(g) {
				sc := flow.StaticCallee(call.Common())
				if sc == nil || sc.Pkg == nil || sc.Pkg.Pkg.Path() != yamuxPkg || (sc.Name() != "Client" && sc.Name() != "Server") {
					continue
				}
				n++
				cfg := flow.Strip(flow.ResolveLoad(call.Common().Args[1]))
				construct := name + ": yamux." + sc.Name() + " gets a config with keep-alive enabled"
				bad := ""
				switch x := cfg.(type) {
				case *ssa.Call:
					if d := flow.StaticCallee(&x.Call); d == nil || d.Pkg == nil || d.Pkg.Pkg.Path() != yamuxPkg || d.Name() != "DefaultConfig" {
						bad = "the config comes from " + flow.Describe(cfg) + ", not from yamux.DefaultConfig()"
					}
				case *ssa.Alloc:
					fs, _ := flow.FieldStores(x)
					v := fs["EnableKeepAlive"]
					if v == nil {
						v = flow.StructFieldOrigin(x, "EnableKeepAlive", 0)
					}
					if b, isB := flow.ConstBool(v); v == nil || !isB || !b {
						bad = "the config is a literal that does not set EnableKeepAlive (its zero value is false)"
					}
				case *ssa.Const:
					// nil config: yamux uses DefaultConfig()
				default:
					bad = "the origin of the config (" + flow.Describe(cfg) + ") is not recognised"
				}
				// no store of EnableKeepAlive = false anywhere in the factory
				for _, b := range g.Blocks {
					for _, ins := range b.Instrs {
						if st, ok := ins.(*ssa.Store); ok {
							if fa, ok := st.Addr.(*ssa.FieldAddr); ok && flow.FieldName(fa.X.Type(), fa.Field) == "EnableKeepAlive" {
								if v, isB := flow.ConstBool(st.Val); !isB || !v {
									bad = "EnableKeepAlive is switched off (or set from a non-constant) at " + instrPos(c.Prog, st)
								}
							}
						}
					}
				}
				res.Check(bad == "", rule, construct, instrPos(c.Prog, call), "yamux.DefaultConfig() (keep-alive on)", bad+": yamux then never starts its keep-alive goroutine, the only code that closes a session whose peer stopped answering - a silently dead session keeps its permit and is never replaced")
			}
		}
	}
	if n < 2 {
		res.Undec(rule, "yamux session factories", "", fmt.Sprintf("%d yamux.Client / yamux.Server calls found, 2 confirmed by hand", n))
	}
}

// checkStreamTranslatorForwards (O6.15): the stream wrapper that translates relayed messages never withholds one:
// every path of streamTranslator.SendMsg / RecvMsg reaches the call of the underlying ServerStream's method (a
// translator's error is logged, the message goes on as it is). A message that is not passed on ends the relay for
// the initiator at that message - and at the same message again after every reconnect.
func checkStreamTranslatorForwards(c *Ctx, res *report.Result, rule string) {
	for _, name := range []string{"SendMsg", "RecvMsg"} {
		f := resolve(c, res, rule, anchor{"interceptor", "*streamTranslator", name})
		if f == nil {
			continue
		}
		isUnder := func(x ssa.Instruction) bool {
			call, ok := x.(ssa.CallInstruction)
			return ok && call.Common().IsInvoke() && call.Common().Method.Name() == name
		}
		r := flow.FindPath(flow.Point{Block: f.Blocks[0]}, flow.IsReturn, isUnder, nil)
		res.Check(!r.Found, rule, "streamTranslator."+name+" always reaches the underlying "+name, fnPos(c.Prog, f), "every path calls ServerStream."+name, "the wrapper can return without passing the message to the underlying stream (path "+flow.BlockPath(r.Via)+"): a message the translator cannot process is withheld, the relay's Send fails, the stream is torn down - and after the reconnect the source sends the same message again")
	}
}

// checkNoStreamCap (O7.7): in LCM mode a peer keeps LCM(local, remote) replication streams open on one connection,
// more than either cluster's own shard count. No gRPC server of the module may cap concurrent streams by a bound
// that is not derived from the LCM: with grpc.MaxConcurrentStreams(max(local, remote) + k) the streams beyond the
// cap are queued for ever and their LCM shards are never forwarded.
func checkNoStreamCap(c *Ctx, res *report.Result, rule string) {
	n := 0
	for _, f := range c.Prog.RepoFuncs() {
		if !isShippedFunc(f) {
			continue
		}
		for _, call := range flow.Calls(f) {
			if !flow.IsCallTo(call.Common(), "google.golang.org/grpc", "", "MaxConcurrentStreams") {
				continue
			}
			n++
			derived := false
			seen := map[ssa.Value]bool{}
			var walk func(v ssa.Value, d int)
			walk = func(v ssa.Value, d int) {
				if d > 8 || v == nil || seen[v] {
					return
				}
				seen[v] = true
				switch x := v.(type) {
				case *ssa.Call:
					if sc := flow.StaticCallee(&x.Call); sc != nil && sc.Name() == "LCM" {
						derived = true
					}
					for _, a := range x.Call.Args {
						walk(a, d+1)
					}
				case *ssa.BinOp:
					walk(x.X, d+1)
					walk(x.Y, d+1)
				case *ssa.Convert:
					walk(x.X, d+1)
				case *ssa.Phi:
					for _, e := range x.Edges {
						walk(e, d+1)
					}
				case *ssa.UnOp:
					if p, ok := flow.FieldPath(x); ok && strings.HasSuffix(p, ".LCM") {
						derived = true
					}
					walk(x.X, d+1)
				}
			}
			walk(call.Common().Args[0], 0)
			res.Check(derived, rule, shortFn(f)+": concurrent streams are not capped below the LCM shard space", instrPos(c.Prog, call), "bound derived from the LCM", "grpc.MaxConcurrentStreams is set from a value that is not the LCM of the shard counts: in LCM mode a peer opens one stream per LCM shard on one connection, the streams beyond the cap never start and their shards are never forwarded")
		}
	}
	if n == 0 {
		res.Hold(rule, "no gRPC server of the module caps concurrent streams", "", "no grpc.MaxConcurrentStreams call in the shipped code")
	}
}

// checkLazyTLSWrappers (O10.13): the connection wrappers the two mux providers apply in their single accept / dial
// loop only construct the TLS connection (tls.Server / tls.Client); nothing in package transport/mux runs the
// handshake itself. The handshake then happens under yamux's first ping, whose write timeout bounds it. A handshake
// run inside the accept loop is bounded only by the provider's lifetime: one peer that connects and stays silent
// parks the loop and the permit it holds, and no dead session is ever replaced.
func checkLazyTLSWrappers(c *Ctx, res *report.Result, rule string) {
	sp, err := c.Prog.SSAPkg("transport/mux")
	if err != nil {
		res.Undec(rule, "transport/mux", "", err.Error())
		return
	}
	wraps := 0
	for _, f := range c.Prog.RepoFuncs() {
		if f.Package() != sp || !isShippedFunc(f) {
			continue
		}
		for _, call := range flow.Calls(f) {
			sc := flow.StaticCallee(call.Common())
			if sc == nil || sc.Pkg == nil || sc.Pkg.Pkg.Path() != "crypto/tls" {
				continue
			}
			switch sc.Name() {
			case "Server", "Client":
				wraps++
			case "Handshake", "HandshakeContext":
				res.Viol(rule, shortFn(f)+": the TLS wrapper does not run the handshake", instrPos(c.Prog, call), "the handshake is run explicitly in the provider's connection path: it is bounded only by the provider's lifetime, so a peer that connects and never speaks parks the single accept / dial loop and the permit it holds - a session that dies afterwards is never replaced")
			}
		}
	}
	if wraps < 2 {
		res.Undec(rule, "TLS wrappers of the mux providers", "", fmt.Sprintf("%d tls.Server / tls.Client calls found, 2 confirmed by hand", wraps))
	} else {
		res.Hold(rule, "the mux providers' TLS wrappers only construct the connection", "", fmt.Sprintf("%d wrappers, no explicit handshake in transport/mux", wraps))
	}
}

// checkInputBlobNotWritten (O14.11 / O12.10): translateOneDataBlob hands back either the blob it was given,
// untouched, or the serializer's new blob: it never stores into a field of its input. The serializer writes proto3
// and labels its result so; copying only the new bytes into the old blob leaves a blob that says JSON and holds
// proto3.
func checkInputBlobNotWritten(c *Ctx, res *report.Result, rule string) {
	f := resolve(c, res, rule, anchor{"interceptor", "", "translateOneDataBlob"})
	if f == nil {
		return
	}
	var blob *ssa.Parameter
	for _, p := range f.Params {
		if strings.HasSuffix(p.Type().String(), "DataBlob") {
			blob = p
		}
	}
	if blob == nil {
		res.Undec(rule, "translateOneDataBlob: blob parameter", fnPos(c.Prog, f), "not found")
		return
	}
	bad := ""
	for _, b := range f.Blocks {
		for _, ins := range b.Instrs {
			st, ok := ins.(*ssa.Store)
			if !ok {
				continue
			}
			fa, ok := st.Addr.(*ssa.FieldAddr)
			if !ok {
				continue
			}
			base := flow.Strip(flow.ResolveLoad(fa.X))
			isInput := base == ssa.Value(blob)
			if ph, isPhi := base.(*ssa.Phi); isPhi {
				for _, e := range ph.Edges {
					if flow.Strip(flow.ResolveLoad(e)) == ssa.Value(blob) {
						isInput = true
					}
				}
			}
			if isInput {
				bad = "field " + flow.FieldName(fa.X.Type(), fa.Field) + " of the input blob is written at " + instrPos(c.Prog, st)
			}
		}
	}
	res.Check(bad == "", rule, "translateOneDataBlob never writes into the blob it was given", fnPos(c.Prog, f), "returns the input untouched or the serializer's own blob", bad+": the re-serialized events are proto3, so a blob that keeps its old encoding label (JSON) and receives the new bytes cannot be decoded by the receiving cluster - the renamed keys, the mapped names and everything else in it are lost")
}
