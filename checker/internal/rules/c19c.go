package rules

import (
	"fmt"
	"golang.org/x/tools/go/ssa"
	"strings"

	"s2scheck/internal/flow"
	"s2scheck/internal/report"
)

// checkTLSGatePolarity (O19.9): GetServerTLSConfig / GetClientTLSConfig hand back "no TLS" (a nil config with a nil
// error, which every caller takes as "serve / dial in plaintext") only on the side on which TLSConfig.IsEnabled()
// is false. The truth table of IsEnabled is O19.6; this is the polarity of its one use in each builder.
func checkTLSGatePolarity(c *Ctx, res *report.Result, rule string) {
	for _, name := range []string{"GetServerTLSConfig", "GetClientTLSConfig"} {
		f := resolve(c, res, rule, anchor{"encryption", "", name})
		if f == nil {
			continue
		}
		n := 0
		for _, b := range f.Blocks {
			for _, ins := range b.Instrs {
				ret, ok := ins.(*ssa.Return)
				if !ok || len(ret.Results) != 2 {
					continue
				}
				vals := flow.Ret(ret)
				// a nil config: the constant nil, or the named result that nothing was stored to on this path
				cfgNil := flow.IsNilConst(vals[0])
				if !cfgNil {
					if ld, isLd := vals[0].(*ssa.UnOp); isLd {
						if al, isAl := ld.X.(*ssa.Alloc); isAl {
							// named result cell: nil unless a store reaches this return
							stored := false
							for _, r := range *al.Referrers() {
								if st, isSt := r.(*ssa.Store); isSt && st.Addr == ssa.Value(al) && !flow.IsNilConst(st.Val) {
									if flow.ReachBlock(st.Block(), b, nil) {
										stored = true
									}
								}
							}
							cfgNil = !stored
						}
					}
				}
				errNil := flow.IsNilConst(vals[1])
				if !errNil {
					if ld, isLd := vals[1].(*ssa.UnOp); isLd {
						if al, isAl := ld.X.(*ssa.Alloc); isAl {
							stored := false
							for _, r := range *al.Referrers() {
								if st, isSt := r.(*ssa.Store); isSt && st.Addr == ssa.Value(al) && !flow.IsNilConst(st.Val) && flow.ReachBlock(st.Block(), b, nil) {
									stored = true
								}
							}
							errNil = !stored
						}
					}
				}
				if !cfgNil || !errNil {
					continue
				}
				n++
				okGate := false
				for _, g := range flow.NormGuards(flow.Guards(b)) {
					if call, isC := g.Cond.(*ssa.Call); isC {
						if sc := flow.StaticCallee(&call.Call); sc != nil && sc.Name() == "IsEnabled" && !g.Side {
							okGate = true
						}
					}
				}
				res.Check(okGate, rule, name+": 'no TLS' is returned only when the settings do not enable TLS", instrPos(c.Prog, ret), "nil config, nil error under !IsEnabled()", "a nil tls.Config is returned without an error on a path on which IsEnabled() was not found false: an endpoint whose settings ask for TLS is served / dialled in plaintext, and any peer completes a connection")
			}
		}
		if n == 0 {
			res.Undec(rule, name+": the 'TLS disabled' return", fnPos(c.Prog, f), "no return of a nil config with a nil error found")
		}
	}
}

// checkClientRecvLimit (O6.14): the client connections the relays read replication messages with accept messages
// up to Temporal's internode limit: MakeDialOptions passes grpc.MaxCallRecvMsgSize(c), c a constant of at least
// 128 MiB, to grpc.WithDefaultCallOptions. Without it gRPC's default of 4 MiB applies to what the proxy receives:
// a larger replication batch fails the relay's Recv with ResourceExhausted, the forwarder ends the stream as if
// the source had closed it, and the batch - and everything after it - is dropped on every reconnect.
func checkClientRecvLimit(c *Ctx, res *report.Result, rule string) {
	f := resolve(c, res, rule, anchor{"transport/grpcutil", "", "MakeDialOptions"})
	if f == nil {
		return
	}
	const internodeLimit = 128 * 1024 * 1024
	var lim *ssa.Call
	for _, call := range flow.Calls(f) {
		if flow.IsCallTo(call.Common(), "google.golang.org/grpc", "", "MaxCallRecvMsgSize") {
			lim, _ = call.(*ssa.Call)
		}
	}
	construct := "MakeDialOptions: the relay clients accept messages up to the internode limit"
	if lim == nil {
		res.Viol(rule, construct, fnPos(c.Prog, f), "no grpc.MaxCallRecvMsgSize among the dial options: gRPC's 4 MiB default applies to every message the proxy receives from a cluster, and a larger replication batch ends the relay as if the source had closed the stream")
		return
	}
	k, isK := flow.ConstInt(lim.Call.Args[0])
	if !isK || k < internodeLimit {
		res.Viol(rule, construct, instrPos(c.Prog, lim), "the receive limit is not a constant of at least 128 MiB (Temporal's internode maximum): replication batches between the limit and 128 MiB are refused by the proxy's own client")
		return
	}
	// it reaches WithDefaultCallOptions
	reaches := false
	var seen = map[ssa.Value]bool{}
	var walk func(v ssa.Value, d int)
	walk = func(v ssa.Value, d int) {
		if d > 6 || seen[v] || v.Referrers() == nil {
			return
		}
		seen[v] = true
		for _, r := range *v.Referrers() {
			switch x := r.(type) {
			case *ssa.Store:
				if ia, ok := x.Addr.(*ssa.IndexAddr); ok {
					walk(ia.X, d+1)
				}
			case *ssa.Slice:
				walk(x, d+1)
			case *ssa.MakeInterface:
				walk(x, d+1)
			case *ssa.ChangeInterface:
				walk(x, d+1)
			case *ssa.Call:
				if flow.IsCallTo(&x.Call, "google.golang.org/grpc", "", "WithDefaultCallOptions") {
					reaches = true
				}
			case *ssa.IndexAddr:
				walk(x, d+1)
			}
		}
	}
	walk(lim, 0)
	res.Check(reaches, rule, construct, instrPos(c.Prog, lim), "grpc.WithDefaultCallOptions(.., grpc.MaxCallRecvMsgSize(128 MiB), ..)", "the receive limit option is built but not handed to grpc.WithDefaultCallOptions")
}

// checkYamuxKeepAlive (O10.12): both session factories (the establisher's and the receiver's) hand yamux a config
// with keep-alive enabled: the config passed to yamux.Client / yamux.Server is the result of yamux.DefaultConfig()
// (which enables it) with no store of EnableKeepAlive = false, or a literal that sets EnableKeepAlive = true. The
// keep-alive goroutine is the only code that turns an unanswered ping into a closed session; without it a silently
// dead peer keeps its pool slot for ever and the pool never heals.
func checkYamuxKeepAlive(c *Ctx, res *report.Result, rule string) {
	const yamuxPkg = "github.com/hashicorp/yamux"
	n := 0
	for _, name := range []string{"NewMuxEstablisherProvider", "NewMuxReceiverProvider"} {
		f := resolve(c, res, rule, anchor{"transport/mux", "", name})
		if f == nil {
			continue
		}
		for _, g := range append([]*ssa.Function{f}, flow.AnonFuncsDeep(f)...) {
			for _, call := range flow.Calls(g) {
				sc := flow.StaticCallee(call.Common())
				if sc == nil || sc.Pkg == nil || sc.Pkg.Pkg.Path() != yamuxPkg || (sc.Name() != "Client" && sc.Name() != "Server") {
					continue
				}
				n++
				cfg := flow.Strip(flow.ResolveLoad(call.Common().Args[1]))
				construct := name + ": yamux." + sc.Name() + " gets a config with keep-alive enabled"
				// keepAliveOff: why the config value does not have keep-alive on ("" = it has). A module helper that
				// returns the config is followed (two levels): every one of its returns must qualify, and it must not
				// switch the flag off either.
				var keepAliveOff func(cfg ssa.Value, in *ssa.Function, d int) string
				keepAliveOff = func(cfg ssa.Value, in *ssa.Function, d int) string {
					bad := ""
					switch x := cfg.(type) {
					case *ssa.Call:
						dc := flow.StaticCallee(&x.Call)
						switch {
						case dc != nil && dc.Pkg != nil && dc.Pkg.Pkg.Path() == yamuxPkg && dc.Name() == "DefaultConfig":
						case dc != nil && dc.Pkg != nil && strings.HasPrefix(dc.Pkg.Pkg.Path(), modPath) && len(dc.Blocks) > 0 && d < 2:
							nret := 0
							for _, hb := range dc.Blocks {
								if ret, isR := hb.Instrs[len(hb.Instrs)-1].(*ssa.Return); isR && len(ret.Results) >= 1 {
									nret++
									if w := keepAliveOff(flow.Strip(flow.ResolveLoad(flow.Ret(ret)[0])), dc, d+1); w != "" {
										bad = "the config comes from " + shortFn(dc) + ", where " + w
									}
								}
							}
							if nret == 0 {
								bad = "the config comes from " + shortFn(dc) + ", which returns nothing recognisable"
							}
						default:
							bad = "the config comes from " + flow.Describe(cfg) + ", not from yamux.DefaultConfig()"
						}
					case *ssa.Alloc:
						fs, _ := flow.FieldStores(x)
						v := fs["EnableKeepAlive"]
						if v == nil {
							v = flow.StructFieldOrigin(x, "EnableKeepAlive", 0)
						}
						if b, isB := flow.ConstBool(v); v == nil || !isB || !b {
							bad = "the config is a literal that does not set EnableKeepAlive (its zero value is false)"
						}
					case *ssa.Const:
						// nil config: yamux uses DefaultConfig()
					default:
						bad = "the origin of the config (" + flow.Describe(cfg) + ") is not recognised"
					}
					// no store of EnableKeepAlive = false anywhere in the function that builds it
					for _, b := range in.Blocks {
						for _, ins := range b.Instrs {
							if st, ok := ins.(*ssa.Store); ok {
								if fa, ok := st.Addr.(*ssa.FieldAddr); ok && flow.FieldName(fa.X.Type(), fa.Field) == "EnableKeepAlive" {
									if v, isB := flow.ConstBool(st.Val); !isB || !v {
										bad = "EnableKeepAlive is switched off (or set from a non-constant) at " + instrPos(c.Prog, st)
									}
								}
							}
						}
					}
					return bad
				}
				bad := keepAliveOff(cfg, g, 0)
				res.Check(bad == "", rule, construct, instrPos(c.Prog, call), "yamux.DefaultConfig() (keep-alive on)", bad+": yamux then never starts its keep-alive goroutine, the only code that closes a session whose peer stopped answering - a silently dead session keeps its permit and is never replaced")
			}
		}
	}
	if n < 2 {
		res.Undec(rule, "yamux session factories", "", fmt.Sprintf("%d yamux.Client / yamux.Server calls found, 2 confirmed by hand", n))
	}
}

// checkStreamTranslatorForwards (O6.15): the stream wrapper that translates relayed messages never withholds one:
// every path of streamTranslator.SendMsg / RecvMsg reaches the call of the underlying ServerStream's method (a
// translator's error is logged, the message goes on as it is). A message that is not passed on ends the relay for
// the initiator at that message - and at the same message again after every reconnect.
func checkStreamTranslatorForwards(c *Ctx, res *report.Result, rule string) {
	for _, name := range []string{"SendMsg", "RecvMsg"} {
		f := resolve(c, res, rule, anchor{"interceptor", "*streamTranslator", name})
		if f == nil {
			continue
		}
		isUnder := func(x ssa.Instruction) bool {
			call, ok := x.(ssa.CallInstruction)
			return ok && call.Common().IsInvoke() && call.Common().Method.Name() == name
		}
		r := flow.FindPath(flow.Point{Block: f.Blocks[0]}, flow.IsReturn, isUnder, nil)
		res.Check(!r.Found, rule, "streamTranslator."+name+" always reaches the underlying "+name, fnPos(c.Prog, f), "every path calls ServerStream."+name, "the wrapper can return without passing the message to the underlying stream (path "+flow.BlockPath(r.Via)+"): a message the translator cannot process is withheld, the relay's Send fails, the stream is torn down - and after the reconnect the source sends the same message again")
	}
}

// checkNoStreamCap (O7.7): in LCM mode a peer keeps LCM(local, remote) replication streams open on one connection,
// more than either cluster's own shard count. No gRPC server of the module may cap concurrent streams by a bound
// that is not derived from the LCM: with grpc.MaxConcurrentStreams(max(local, remote) + k) the streams beyond the
// cap are queued for ever and their LCM shards are never forwarded.
func checkNoStreamCap(c *Ctx, res *report.Result, rule string) {
	n := 0
	for _, f := range c.Prog.RepoFuncs() {
		if !isShippedFunc(f) {
			continue
		}
		for _, call := range flow.Calls(f) {
			if !flow.IsCallTo(call.Common(), "google.golang.org/grpc", "", "MaxConcurrentStreams") {
				continue
			}
			n++
			derived := false
			seen := map[ssa.Value]bool{}
			var walk func(v ssa.Value, d int)
			walk = func(v ssa.Value, d int) {
				if d > 8 || v == nil || seen[v] {
					return
				}
				seen[v] = true
				switch x := v.(type) {
				case *ssa.Call:
					if sc := flow.StaticCallee(&x.Call); sc != nil && sc.Name() == "LCM" {
						derived = true
					}
					for _, a := range x.Call.Args {
						walk(a, d+1)
					}
				case *ssa.BinOp:
					walk(x.X, d+1)
					walk(x.Y, d+1)
				case *ssa.Convert:
					walk(x.X, d+1)
				case *ssa.Phi:
					for _, e := range x.Edges {
						walk(e, d+1)
					}
				case *ssa.UnOp:
					if p, ok := flow.FieldPath(x); ok && strings.HasSuffix(p, ".LCM") {
						derived = true
					}
					walk(x.X, d+1)
				}
			}
			walk(call.Common().Args[0], 0)
			res.Check(derived, rule, shortFn(f)+": concurrent streams are not capped below the LCM shard space", instrPos(c.Prog, call), "bound derived from the LCM", "grpc.MaxConcurrentStreams is set from a value that is not the LCM of the shard counts: in LCM mode a peer opens one stream per LCM shard on one connection, the streams beyond the cap never start and their shards are never forwarded")
		}
	}
	if n == 0 {
		res.Hold(rule, "no gRPC server of the module caps concurrent streams", "", "no grpc.MaxConcurrentStreams call in the shipped code")
	}
}

// checkLazyTLSWrappers (O10.13): the connection wrappers the two mux providers apply in their single accept / dial
// loop only construct the TLS connection (tls.Server / tls.Client); nothing in package transport/mux runs the
// handshake itself. The handshake then happens under yamux's first ping, whose write timeout bounds it. A handshake
// run inside the accept loop is bounded only by the provider's lifetime: one peer that connects and stays silent
// parks the loop and the permit it holds, and no dead session is ever replaced.
func checkLazyTLSWrappers(c *Ctx, res *report.Result, rule string) {
	sp, err := c.Prog.SSAPkg("transport/mux")
	if err != nil {
		res.Undec(rule, "transport/mux", "", err.Error())
		return
	}
	wraps := 0
	for _, f := range c.Prog.RepoFuncs() {
		if f.Package() != sp || !isShippedFunc(f) {
			continue
		}
		for _, call := range flow.Calls(f) {
			sc := flow.StaticCallee(call.Common())
			if sc == nil || sc.Pkg == nil || sc.Pkg.Pkg.Path() != "crypto/tls" {
				continue
			}
			switch sc.Name() {
			case "Server", "Client":
				wraps++
			case "Handshake", "HandshakeContext":
				res.Viol(rule, shortFn(f)+": the TLS wrapper does not run the handshake", instrPos(c.Prog, call), "the handshake is run explicitly in the provider's connection path: it is bounded only by the provider's lifetime, so a peer that connects and never speaks parks the single accept / dial loop and the permit it holds - a session that dies afterwards is never replaced")
			}
		}
	}
	if wraps < 2 {
		res.Undec(rule, "TLS wrappers of the mux providers", "", fmt.Sprintf("%d tls.Server / tls.Client calls found, 2 confirmed by hand", wraps))
	} else {
		res.Hold(rule, "the mux providers' TLS wrappers only construct the connection", "", fmt.Sprintf("%d wrappers, no explicit handshake in transport/mux", wraps))
	}
}

// checkInputBlobNotWritten (O14.11 / O12.10): translateOneDataBlob hands back either the blob it was given,
// untouched, or the serializer's new blob: it never stores into a field of its input. The serializer writes proto3
// and labels its result so; copying only the new bytes into the old blob leaves a blob that says JSON and holds
// proto3.
func checkInputBlobNotWritten(c *Ctx, res *report.Result, rule string) {
	f := resolve(c, res, rule, anchor{"interceptor", "", "translateOneDataBlob"})
	if f == nil {
		return
	}
	var blob *ssa.Parameter
	for _, p := range f.Params {
		if strings.HasSuffix(p.Type().String(), "DataBlob") {
			blob = p
		}
	}
	if blob == nil {
		res.Undec(rule, "translateOneDataBlob: blob parameter", fnPos(c.Prog, f), "not found")
		return
	}
	bad := ""
	for _, b := range f.Blocks {
		for _, ins := range b.Instrs {
			st, ok := ins.(*ssa.Store)
			if !ok {
				continue
			}
			fa, ok := st.Addr.(*ssa.FieldAddr)
			if !ok {
				continue
			}
			base := flow.Strip(flow.ResolveLoad(fa.X))
			isInput := base == ssa.Value(blob)
			if ph, isPhi := base.(*ssa.Phi); isPhi {
				for _, e := range ph.Edges {
					if flow.Strip(flow.ResolveLoad(e)) == ssa.Value(blob) {
						isInput = true
					}
				}
			}
			if isInput {
				bad = "field " + flow.FieldName(fa.X.Type(), fa.Field) + " of the input blob is written at " + instrPos(c.Prog, st)
			}
		}
	}
	res.Check(bad == "", rule, "translateOneDataBlob never writes into the blob it was given", fnPos(c.Prog, f), "returns the input untouched or the serializer's own blob", bad+": the re-serialized events are proto3, so a blob that keeps its old encoding label (JSON) and receives the new bytes cannot be decoded by the receiving cluster - the renamed keys, the mapped names and everything else in it are lost")
}

// checkNoWaitForReady (O11.9): when no mux session is left the client reports Unavailable at once: the dial options
// do not switch the module's calls to wait-for-ready. With grpc.WaitForReady(true) as a default call option a call
// made while the session set is empty waits in the picker until the caller's deadline - or for ever.
func checkNoWaitForReady(c *Ctx, res *report.Result, rule string) {
	n := 0
	for _, f := range c.Prog.RepoFuncs() {
		if !isShippedFunc(f) {
			continue
		}
		for _, call := range flow.Calls(f) {
			if !flow.IsCallTo(call.Common(), "google.golang.org/grpc", "", "WaitForReady") {
				continue
			}
			n++
			v, isC := flow.ConstBool(call.Common().Args[0])
			res.Check(isC && !v, rule, shortFn(f)+": calls fail fast when no session is available", instrPos(c.Prog, call), "WaitForReady(false)", "grpc.WaitForReady is switched on (or set from a variable): with an empty session set RPCs no longer return Unavailable, they wait for their deadline")
		}
	}
	if n == 0 {
		res.Hold(rule, "no call option of the module asks gRPC to wait for a ready connection", "", "no grpc.WaitForReady call in the shipped code: gRPC's default (fail fast) applies")
	}
}

// checkTranslatedBlobProvenance (O12.10): what translateOneDataBlob returns after the visitor ran is the blob it was
// given or the serialization of the very events the visitor walked - nothing else (not a blob produced before the
// visitor ran, e.g. by the UTF-8 repair). Otherwise the names the visitor mapped are in the events and the bytes
// that leave are older than they.
func checkTranslatedBlobProvenance(c *Ctx, res *report.Result, rule string) {
	f := resolve(c, res, rule, anchor{"interceptor", "", "translateOneDataBlob"})
	if f == nil {
		return
	}
	var visitorCall *ssa.Call
	var blobParam *ssa.Parameter
	for _, p := range f.Params {
		if strings.HasSuffix(p.Type().String(), "DataBlob") {
			blobParam = p
		}
	}
	for _, call := range flow.Calls(f) {
		if cv, ok := call.(*ssa.Call); ok && flow.StaticCallee(&cv.Call) == nil && !cv.Call.IsInvoke() {
			if _, isBuiltin := cv.Call.Value.(*ssa.Builtin); !isBuiltin && len(cv.Call.Args) == 3 {
				visitorCall = cv
			}
		}
	}
	if visitorCall == nil || blobParam == nil {
		res.Undec(rule, "translateOneDataBlob: visitor call", fnPos(c.Prog, f), "the call of the visitor parameter (or the blob parameter) was not found")
		return
	}
	events := visitorCall.Call.Args[1]
	okSer := func(v ssa.Value) bool {
		ex, ok := v.(*ssa.Extract)
		if !ok || ex.Index != 0 {
			return false
		}
		call, ok := ex.Tuple.(*ssa.Call)
		if !ok {
			return false
		}
		if !call.Call.IsInvoke() || call.Call.Method.Name() != "SerializeEvents" || len(call.Call.Args) < 1 {
			return false
		}
		return flow.SameValue(call.Call.Args[0], events) || flow.ResolveLoad(call.Call.Args[0]) == flow.ResolveLoad(events)
	}
	bad := ""
	var alts func(v ssa.Value, d int)
	seen := map[ssa.Value]bool{}
	alts = func(v ssa.Value, d int) {
		v = flow.ResolveLoad(v)
		if d > 6 || seen[v] {
			return
		}
		seen[v] = true
		switch x := v.(type) {
		case *ssa.Phi:
			for _, e := range x.Edges {
				alts(e, d+1)
			}
			return
		case *ssa.Parameter:
			if x == blobParam {
				return
			}
		}
		if okSer(v) {
			return
		}
		bad = flow.Describe(v)
	}
	n := 0
	for _, b := range f.Blocks {
		for _, ins := range b.Instrs {
			ret, ok := ins.(*ssa.Return)
			if !ok || len(ret.Results) == 0 {
				continue
			}
			if !flow.ReachBlock(visitorCall.Block(), b, nil) {
				continue
			}
			n++
			alts(ret.Results[0], 0)
		}
	}
	if n == 0 {
		res.Undec(rule, "translateOneDataBlob: returns after the visitor", fnPos(c.Prog, f), "none found")
		return
	}
	res.Check(bad == "", rule, "translateOneDataBlob returns its input or the serialization of the events the visitor walked", instrPos(c.Prog, visitorCall), "blob parameter, or SerializeEvents(events) of the visitor's own events", "after the visitor ran the function can return "+bad+": a blob that was produced before the visitor mapped the names (the repaired-but-untranslated blob) leaves the proxy, with `matched` reported and no error")
}

// checkEveryBlobTranslated (O16.1e / O12.11): translateDataBlobs hands every element of its input to
// translateOneDataBlob: no path through the loop body goes on to the next element without the call (an element
// skipped by its encoding label, its index or its size is neither translated nor access-checked).
func checkEveryBlobTranslated(c *Ctx, res *report.Result, rule string) {
	f := resolve(c, res, rule, anchor{"interceptor", "", "translateDataBlobs"})
	if f == nil {
		return
	}
	var call ssa.Instruction
	for _, cl := range flow.Calls(f) {
		if sc := flow.StaticCallee(cl.Common()); sc != nil && sc.Name() == "translateOneDataBlob" {
			call = cl
		}
	}
	construct := "translateDataBlobs passes every element to translateOneDataBlob"
	if call == nil {
		res.Viol(rule, construct, fnPos(c.Prog, f), "no call of translateOneDataBlob: the blobs of a repeated field are never looked into")
		return
	}
	// the loop header: nearest dominating block with a back edge from the call's region
	var head *ssa.BasicBlock
	for b := call.Block(); b != nil && head == nil; b = b.Idom() {
		for _, p := range b.Preds {
			if b.Dominates(p) && flow.ReachBlock(call.Block(), p, nil) {
				head = b
			}
		}
	}
	if head == nil {
		res.Undec(rule, construct, instrPos(c.Prog, call), "the call is not inside a loop")
		return
	}
	body := head.Succs[0]
	r := flow.FindPath(flow.Point{Block: body}, func(x ssa.Instruction) bool { return x.Block() == head }, func(x ssa.Instruction) bool { return x == call }, nil)
	res.Check(!r.Found, rule, construct, instrPos(c.Prog, call), "no way round the call inside the loop", "an element can be skipped (path "+flow.BlockPath(r.Via)+"): a blob that is not looked into keeps the names it carries - untranslated, and unchecked against the namespace allow-list")
}

// checkRepairGate (O17.10 / O18.8): the codec repairs on every invalid-UTF-8 error, whatever the message: from the
// true side of IsInvalidUTF8Error(err) every path of RepairUTF8Codec.Unmarshal reaches convertAndRepairInvalidUTF8
// (no size, type or count condition in between).
func checkRepairGate(c *Ctx, res *report.Result, rule string) {
	f := resolve(c, res, rule, anchor{"proto/compat", "*RepairUTF8Codec", "Unmarshal"})
	if f == nil {
		return
	}
	var gate *ssa.Call
	for _, call := range flow.Calls(f) {
		if sc := flow.StaticCallee(call.Common()); sc != nil && sc.Name() == "IsInvalidUTF8Error" {
			gate, _ = call.(*ssa.Call)
		}
	}
	isRepair := func(x ssa.Instruction) bool {
		call, ok := x.(ssa.CallInstruction)
		if !ok {
			return false
		}
		sc := flow.StaticCallee(call.Common())
		return sc != nil && sc.Name() == "convertAndRepairInvalidUTF8"
	}
	construct := "RepairUTF8Codec.Unmarshal repairs on every invalid-UTF-8 error"
	if gate == nil {
		res.Undec(rule, construct, fnPos(c.Prog, f), "no IsInvalidUTF8Error call")
		return
	}
	// the true side of the gate
	bad := ""
	found := false
	for _, b := range f.Blocks {
		iff := lastIfOf(b)
		if iff == nil || iff.Cond != ssa.Value(gate) {
			continue
		}
		found = true
		r := flow.FindPath(flow.Point{Block: b.Succs[0]}, flow.IsReturn, isRepair, nil)
		if r.Found {
			bad = "path " + flow.BlockPath(r.Via)
		}
	}
	if !found {
		res.Undec(rule, construct, instrPos(c.Prog, gate), "the result of IsInvalidUTF8Error is not tested by an if of its own (it is combined with another condition): cannot tell on which inputs the repair runs")
		return
	}
	res.Check(bad == "", rule, construct, instrPos(c.Prog, gate), "the true side always reaches convertAndRepairInvalidUTF8", "an invalid-UTF-8 error can be returned without the repair having been tried ("+bad+"): a condition other than the error class (size, type, count) decides whether a message is repaired")
}
