package rules

import (
	"fmt"
	"go/token"
	"strings"

	"golang.org/x/tools/go/ssa"

	"s2scheck/internal/flow"
	"s2scheck/internal/report"
)

// nilOrEmptyEdge: the edge a->b is taken when a value loaded from a field whose path ends in one of `fields` is nil
// (pointer) or "" (string).
func nilOrEmptyEdge(a, b *ssa.BasicBlock, fields []string) bool {
	for _, g := range flow.NormGuards(flow.EdgeGuards(a, b)) {
		if iffBlockOf(g.Cond) != a {
			continue
		}
		bo, ok := g.Cond.(*ssa.BinOp)
		if !ok || (bo.Op != token.EQL && bo.Op != token.NEQ) {
			continue
		}
		var v ssa.Value
		if flow.IsNilConst(bo.Y) {
			v = bo.X
		} else if s, isS := flow.ConstString(bo.Y); isS && s == "" {
			v = bo.X
		} else if flow.IsNilConst(bo.X) {
			v = bo.Y
		} else if s, isS := flow.ConstString(bo.X); isS && s == "" {
			v = bo.Y
		}
		if v == nil {
			continue
		}
		emptySide := (bo.Op == token.EQL) == g.Side
		if !emptySide {
			continue
		}
		p, okp := flow.FieldPath(v)
		if !okp {
			continue
		}
		for _, f := range fields {
			if strings.HasSuffix(p, f) {
				return true
			}
		}
	}
	return false
}

// checkTaskGroupingFilter (O2.9): inside the grouping loop of recvReplicationMessages a task is left out of every
// group only if it cannot be routed - no RawTaskInfo, no namespace id or no workflow id. Any other way around the
// store into the grouping map drops a routable task silently (the batch's watermark still advances).
func checkTaskGroupingFilter(c *Ctx, res *report.Result, rule string, f *ssa.Function) {
	var upd *ssa.MapUpdate
	for _, b := range f.Blocks {
		for _, ins := range b.Instrs {
			if mu, ok := ins.(*ssa.MapUpdate); ok {
				if _, isMk := mu.Map.(*ssa.MakeMap); isMk && strings.Contains(mu.Map.Type().String(), "ReplicationTask") {
					upd = mu
				}
			}
		}
	}
	if upd == nil {
		res.Undec(rule, "recvReplicationMessages: grouping store", fnPos(c.Prog, f), "no store into the per-target grouping map")
		return
	}
	// the loop header of the range over the batch's tasks: the nearest dominating block with a back edge
	var head *ssa.BasicBlock
	for b := upd.Block(); b != nil; b = b.Idom() {
		for _, p := range b.Preds {
			if b.Dominates(p) && flow.ReachBlock(upd.Block(), p, nil) {
				head = b
			}
		}
		if head != nil {
			break
		}
	}
	if head == nil {
		res.Undec(rule, "recvReplicationMessages: grouping loop", instrPos(c.Prog, upd), "the store into the grouping map is not inside a loop")
		return
	}
	body := head.Succs[0]
	isHead := func(x ssa.Instruction) bool { return x.Block() == head }
	r := flow.FindPath(flow.Point{Block: body}, isHead, func(x ssa.Instruction) bool { return x == ssa.Instruction(upd) }, func(a, b *ssa.BasicBlock) bool {
		return !nilOrEmptyEdge(a, b, []string{"RawTaskInfo", "NamespaceId", "WorkflowId"})
	})
	res.Check(!r.Found, rule, "recvReplicationMessages: a task is left out of the groups only if it has no RawTaskInfo / namespace id / workflow id", instrPos(c.Prog, upd), "every other way through the loop body passes the store into the grouping map", "a routable task can pass through the grouping loop without being put into a group (path "+flow.BlockPath(r.Via)+"): it is dropped silently while the batch's watermark still advances past it")
}

// checkRawTaskIDRewrite (O2.3, guard): the rewrite of RawTaskInfo.TaskId may be skipped only when RawTaskInfo is nil.
func checkRawTaskIDRewrite(c *Ctx, res *report.Result, rule string, f *ssa.Function) {
	n := 0
	for _, b := range f.Blocks {
		for _, ins := range b.Instrs {
			st, ok := ins.(*ssa.Store)
			if !ok {
				continue
			}
			fa, ok := st.Addr.(*ssa.FieldAddr)
			if !ok || flow.FieldName(fa.X.Type(), fa.Field) != "TaskId" {
				continue
			}
			if p, _ := flow.FieldPath(st.Val); !strings.HasSuffix(p, ".nextProxyTaskID") {
				continue
			}
			n++
			// from the store of SourceTaskId (same task) every way to the loop's next element passes this store,
			// other than over the RawTaskInfo == nil edge
			var first *ssa.Store
			for d := b; d != nil && first == nil; d = d.Idom() {
				for _, x := range d.Instrs {
					if s2, ok := x.(*ssa.Store); ok {
						if fa2, ok := s2.Addr.(*ssa.FieldAddr); ok && flow.FieldName(fa2.X.Type(), fa2.Field) == "SourceTaskId" {
							first = s2
						}
					}
				}
			}
			if first == nil {
				res.Undec(rule, "sendReplicationMessages: RawTaskInfo.TaskId rewrite", instrPos(c.Prog, st), "no dominating SourceTaskId rewrite found")
				continue
			}
			isNext := func(x ssa.Instruction) bool {
				_, isSend := x.(ssa.CallInstruction)
				return isSend && x.(ssa.CallInstruction).Common().IsInvoke() && x.(ssa.CallInstruction).Common().Method.Name() == "Send" || x == ssa.Instruction(first)
			}
			r := flow.FindPath(flow.After(first), isNext, func(x ssa.Instruction) bool { return x == ssa.Instruction(st) }, func(a, b2 *ssa.BasicBlock) bool {
				return !nilOrEmptyEdge(a, b2, []string{"RawTaskInfo"})
			})
			res.Check(!r.Found, rule, "sendReplicationMessages: RawTaskInfo.TaskId is rewritten whenever RawTaskInfo is present", instrPos(c.Prog, st), "only the RawTaskInfo == nil edge goes around the store", "a task with RawTaskInfo can be sent with its original id left in RawTaskInfo.TaskId (path "+flow.BlockPath(r.Via)+"): ids of two id spaces on one stream")
		}
	}
	if n == 0 {
		res.Undec(rule, "sendReplicationMessages: RawTaskInfo.TaskId rewrite", fnPos(c.Prog, f), "no store of the allocated id into RawTaskInfo.TaskId")
	}
}

// checkLastElementGuarded (O2.10): an access of the last element, x[len(x)-1], panics on an empty x. It must be
// dominated by a test that gives len(x) >= 1 (len(x) > 0 true, len(x) == 0 false, ...), or x must be a group taken
// from a map whose values are only ever stored as append results (never empty). A panic in one of the stream
// workers is not recovered: the whole proxy goes down with every stream on it.
func checkLastElementGuarded(c *Ctx, res *report.Result, rule string, files []string, minSites int) {
	n := 0
	for _, f := range c.Prog.RepoFuncs() {
		if !isShippedFunc(f) || len(f.Blocks) == 0 {
			continue
		}
		pos := c.Prog.Pos(f.Pos())
		in := false
		for _, fl := range files {
			if strings.HasPrefix(pos, fl) {
				in = true
			}
		}
		if !in {
			continue
		}
		for _, b := range f.Blocks {
			for _, ins := range b.Instrs {
				ia, ok := ins.(*ssa.IndexAddr)
				if !ok {
					continue
				}
				sub, ok := ia.Index.(*ssa.BinOp)
				if !ok || sub.Op != token.SUB {
					continue
				}
				if k, isK := flow.ConstInt(sub.Y); !isK || k != 1 {
					continue
				}
				ln, ok := sub.X.(*ssa.Call)
				if !ok {
					continue
				}
				if bi, isB := ln.Call.Value.(*ssa.Builtin); !isB || bi.Name() != "len" {
					continue
				}
				if !sameSlicePath(ln.Call.Args[0], ia.X) {
					continue
				}
				n++
				construct := fmt.Sprintf("%s: last-element access #%d is made on a non-empty slice", shortFn(f), n)
				okG := false
				for _, g := range flow.NormGuards(flow.Guards(b)) {
					bo, isBo := g.Cond.(*ssa.BinOp)
					if !isBo {
						continue
					}
					l2, isL := bo.X.(*ssa.Call)
					if !isL {
						continue
					}
					if bi, isB := l2.Call.Value.(*ssa.Builtin); !isB || bi.Name() != "len" || !sameSlicePath(l2.Call.Args[0], ia.X) {
						continue
					}
					k, isK := flow.ConstInt(bo.Y)
					if !isK {
						continue
					}
					switch {
					case bo.Op == token.GTR && k >= 0 && g.Side, bo.Op == token.GEQ && k >= 1 && g.Side,
						bo.Op == token.EQL && k == 0 && !g.Side, bo.Op == token.NEQ && k == 0 && g.Side,
						bo.Op == token.LEQ && k >= 0 && !g.Side, bo.Op == token.LSS && k >= 1 && !g.Side:
						okG = true
					}
				}
				why := "guarded by len > 0"
				if !okG {
					// a group of a map filled only with append results
					if ex, isEx := flow.Strip(ia.X).(*ssa.Extract); isEx {
						if nx, isNx := ex.Tuple.(*ssa.Next); isNx && ex.Index == 2 {
							if rg, isRg := nx.Iter.(*ssa.Range); isRg {
								onlyAppends, stores := true, 0
								for _, bb := range f.Blocks {
									for _, x := range bb.Instrs {
										if mu, isMU := x.(*ssa.MapUpdate); isMU && mu.Map == rg.X {
											stores++
											call, isC := mu.Value.(*ssa.Call)
											if !isC {
												onlyAppends = false
												continue
											}
											if bi, isB := call.Call.Value.(*ssa.Builtin); !isB || bi.Name() != "append" {
												onlyAppends = false
											}
										}
									}
								}
								if onlyAppends && stores > 0 {
									okG = true
									why = "a group of a map whose values are stored only as append results"
								}
							}
						}
					}
				}
				res.Check(okG, rule, construct, instrPos(c.Prog, ia), why, "the last element of "+flow.Describe(ia.X)+" is read where the slice is not known to be non-empty: an empty one (a watermark-only batch) panics with index out of range [-1] in a stream worker, which nothing recovers - the process ends with every stream on it")
			}
		}
	}
	if n < minSites {
		res.Undec(rule, "last-element accesses", "", fmt.Sprintf("%d found, %d confirmed by hand", n, minSites))
	}
}

// sameSlicePath: two expressions denote the same slice: the same SSA value, or loads with the same field path
// (m.Messages.ReplicationTasks read twice).
func sameSlicePath(a, b ssa.Value) bool {
	if flow.SameValue(flow.Strip(a), flow.Strip(b)) {
		return true
	}
	pa, oka := flow.FieldPath(a)
	pb, okb := flow.FieldPath(b)
	return oka && okb && pa != "" && pa == pb
}
