package rules

import (
	"encoding/json"
	"fmt"
	"os"
	"os/exec"
	"path/filepath"
	"sort"
	"strings"
	"sync"

	"s2scheck/internal/report"
)

// Variant is a seeded source edit used by the thorough-tier self-test: the edit is applied in memory
// (go/packages overlay), the property's rules are run in a subprocess, and the named rule must
// report a violation. A variant whose anchor text is absent from the current tree, or that no
// longer type-checks, is skipped and reported - the verdict of a check is only about /repo as it is.
type Variant struct {
	Name     string
	Property string
	File     string // relative to the repo root
	Old, New string
	Expect   string // rule that must fire
	Contains string // optional substring of the construct
	// Benign marks a behaviour-preserving refactoring: NO rule may report anything on it.
	Benign bool
	// Patch, when set, is a unified diff (a seeded change kept under /verif/seeded) applied instead of Old/New.
	Patch string
}

var Variants []Variant

func addVariants(vs ...Variant) { Variants = append(Variants, vs...) }

type VariantResult struct {
	Name    string `json:"name"`
	File    string `json:"file"`
	Expect  string `json:"expect"`
	Outcome string `json:"outcome"` // caught / missed / skipped (reason)
	Fired   string `json:"fired,omitempty"`
}

type VariantReport struct {
	Total   int `json:"total"`
	Caught  int `json:"caught"`
	Missed  int `json:"missed"`
	Skipped int `json:"skipped"`
	// benign (behaviour-preserving) variants: silent is good, a false alarm fails the self-test
	Silent      int             `json:"benign_silent"`
	FalseAlarms int             `json:"benign_false_alarms"`
	Results     []VariantResult `json:"results"`
}

func RunVariants(prop, repo, verif string) any {
	var vs []Variant
	for _, v := range Variants {
		if v.Property == prop {
			vs = append(vs, v)
		}
	}
	vs = append(vs, SeededVariants(verif, prop)...)
	if len(vs) == 0 {
		return nil
	}
	self, err := os.Executable()
	if err != nil {
		return &VariantReport{}
	}
	tmp, err := os.MkdirTemp("", "s2scheck-variants-")
	if err != nil {
		return &VariantReport{}
	}
	defer os.RemoveAll(tmp)
	rep := &VariantReport{Total: len(vs), Results: make([]VariantResult, len(vs))}
	// obligations that are known findings on the current tree do not count against a benign variant
	knownNow := map[string]bool{}
	if kf, err := report.LoadKnown(filepath.Join(verif, "known_findings.json")); err == nil {
		for _, e := range kf.Entries {
			if e.Property == prop && e.State == "known" {
				knownNow[e.Rule+" "+e.Construct] = true
			}
		}
	}
	sem := make(chan struct{}, 5)
	var wg sync.WaitGroup
	for i, v := range vs {
		wg.Add(1)
		go func(i int, v Variant) {
			defer wg.Done()
			sem <- struct{}{}
			defer func() { <-sem }()
			r := VariantResult{Name: v.Name, File: v.File, Expect: v.Expect}
			defer func() { rep.Results[i] = r }()
			var args []string
			if v.Patch != "" {
				pp := v.Patch
				if !filepath.IsAbs(pp) {
					pp = filepath.Join(verif, pp)
				}
				pb, err := os.ReadFile(pp)
				if err != nil {
					r.Outcome = "skipped (patch absent)"
					return
				}
				for j, fp := range parseUnifiedDiff(string(pb)) {
					src, err := os.ReadFile(filepath.Join(repo, fp.file))
					if err != nil {
						r.Outcome = "skipped (file absent)"
						return
					}
					edited, ok := applyHunks(string(src), fp.hunks)
					if !ok {
						r.Outcome = "skipped (patch does not apply to the current tree)"
						return
					}
					tf := filepath.Join(tmp, fmt.Sprintf("v%d_%d.go", i, j))
					if err := os.WriteFile(tf, []byte(edited), 0o644); err != nil {
						r.Outcome = "skipped (tmp)"
						return
					}
					args = append(args, "-overlay", filepath.Join(repo, fp.file)+"="+tf)
				}
				if len(args) == 0 {
					r.Outcome = "skipped (empty patch)"
					return
				}
			} else {
				src, err := os.ReadFile(filepath.Join(repo, v.File))
				if err != nil {
					r.Outcome = "skipped (file absent)"
					return
				}
				if strings.Count(string(src), v.Old) != 1 {
					r.Outcome = "skipped (anchor text not present exactly once in the current tree)"
					return
				}
				edited := strings.Replace(string(src), v.Old, v.New, 1)
				tf := filepath.Join(tmp, fmt.Sprintf("v%d.go", i))
				if err := os.WriteFile(tf, []byte(edited), 0o644); err != nil {
					r.Outcome = "skipped (tmp)"
					return
				}
				args = append(args, "-overlay", filepath.Join(repo, v.File)+"="+tf)
			}
			cmd := exec.Command(self, append([]string{"-prop", prop, "-tier", "quick", "-variant", "-repo", repo, "-verif", verif}, args...)...)
			cmd.Env = os.Environ()
			out, err := cmd.Output()
			if err != nil {
				r.Outcome = "skipped (subprocess: " + err.Error() + ")"
				return
			}
			var bad []report.Obligation
			line := strings.TrimSpace(string(out))
			if idx := strings.LastIndex(line, "\n"); idx >= 0 {
				line = line[idx+1:]
			}
			if err := json.Unmarshal([]byte(line), &bad); err != nil {
				r.Outcome = "skipped (bad subprocess output)"
				return
			}
			for _, o := range bad {
				if o.Rule == "engine" {
					r.Outcome = "skipped (variant does not type-check on the current tree)"
					return
				}
			}
			if v.Benign {
				var fired []string
				for _, o := range bad {
					if knownNow[o.Rule+" "+o.Construct] {
						continue
					}
					fired = append(fired, string(o.Status)+" "+o.Rule+" "+o.Construct)
				}
				if len(fired) == 0 {
					r.Outcome = "silent"
				} else {
					sort.Strings(fired)
					r.Outcome = "false-alarm"
					r.Fired = strings.Join(fired, "; ")
				}
				return
			}
			for _, o := range bad {
				if o.Rule == v.Expect && (v.Contains == "" || strings.Contains(o.Construct, v.Contains)) {
					r.Outcome = "caught"
					r.Fired = o.Rule + " " + o.Construct
					return
				}
			}
			r.Outcome = "missed"
			var fired []string
			for _, o := range bad {
				fired = append(fired, o.Rule+" "+o.Construct)
			}
			sort.Strings(fired)
			r.Fired = strings.Join(fired, "; ")
		}(i, v)
	}
	wg.Wait()
	for _, r := range rep.Results {
		switch {
		case r.Outcome == "caught":
			rep.Caught++
		case r.Outcome == "silent":
			rep.Silent++
		case r.Outcome == "false-alarm":
			rep.FalseAlarms++
		case r.Outcome == "missed":
			rep.Missed++
		default:
			rep.Skipped++
		}
	}
	return rep
}
