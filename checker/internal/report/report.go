// Package report turns obligations into the interface the harness expects: evidence/<id>.json,
// KNOWN-FINDING / VIOLATION lines, replay files and the exit status.
package report

import (
	"encoding/json"
	"fmt"
	"os"
	"path/filepath"
	"sort"
	"strings"
	"time"
)

type Status string

const (
	Holds     Status = "holds"
	Violated  Status = "violated"
	Undecided Status = "undecided"
)

// Obligation is one rule instance: (rule, construct) with a verdict. Keys never contain line numbers.
type Obligation struct {
	Rule      string   `json:"rule"`
	Construct string   `json:"construct"`
	Status    Status   `json:"status"`
	Detail    string   `json:"detail,omitempty"`
	Pos       string   `json:"pos,omitempty"`
	Trace     []string `json:"trace,omitempty"`
	Trivial   bool     `json:"-"` // nothing to decide (e.g. a root type without relevant fields)
}

func (o Obligation) Key() string { return o.Rule + " " + o.Construct }

// Result is what a property's rule set returns.
type Result struct {
	Property    string
	Level       string
	Obligations []Obligation
	Explanation string
	RuleDoc     map[string]string // rule -> one-line statement of the rule
	Floors      map[string]int    // rule -> minimum number of instances
	Notes       []string
	Assumptions []string
	Extra       map[string]any
	Analysed    map[string]any // what was loaded / looked at
}

func (r *Result) Add(rule, construct string, st Status, pos, detail string, trace ...string) {
	r.Obligations = append(r.Obligations, Obligation{Rule: rule, Construct: construct, Status: st, Pos: pos, Detail: detail, Trace: trace})
}
func (r *Result) Hold(rule, construct, pos, detail string) {
	r.Add(rule, construct, Holds, pos, detail)
}
func (r *Result) Viol(rule, construct, pos, detail string, trace ...string) {
	r.Add(rule, construct, Violated, pos, detail, trace...)
}
func (r *Result) Undec(rule, construct, pos, detail string, trace ...string) {
	r.Add(rule, construct, Undecided, pos, detail, trace...)
}
func (r *Result) Trivial(rule, construct string) {
	r.Obligations = append(r.Obligations, Obligation{Rule: rule, Construct: construct, Status: Holds, Trivial: true})
}

// Check adds holds/violated depending on cond.
func (r *Result) Check(cond bool, rule, construct, pos, okDetail, badDetail string) bool {
	if cond {
		r.Hold(rule, construct, pos, okDetail)
	} else {
		r.Viol(rule, construct, pos, badDetail)
	}
	return cond
}

type KnownEntry struct {
	Property  string `json:"property"`
	Rule      string `json:"rule"`
	Construct string `json:"construct"`
	State     string `json:"state"` // "known" or "fixed"
	Commit    string `json:"commit,omitempty"`
	What      string `json:"what"`
}

type KnownFile struct {
	Comment string       `json:"_comment,omitempty"`
	Entries []KnownEntry `json:"entries"`
}

func LoadKnown(path string) (KnownFile, error) {
	var kf KnownFile
	b, err := os.ReadFile(path)
	if err != nil {
		if os.IsNotExist(err) {
			return kf, nil
		}
		return kf, err
	}
	err = json.Unmarshal(b, &kf)
	return kf, err
}

type Outcome struct {
	Violations int
	Known      int
	Lines      []string
}

// Finish writes evidence + replay files, prints the verdict lines and returns the exit code.
func Finish(res *Result, verifDir, tier string, seed int, start time.Time, known KnownFile, variants any, quiet bool) int {
	sort.SliceStable(res.Obligations, func(i, j int) bool { return res.Obligations[i].Key() < res.Obligations[j].Key() })
	// floors
	counts := map[string]int{}
	for _, o := range res.Obligations {
		counts[o.Rule]++
	}
	var floorRules []string
	for r := range res.Floors {
		floorRules = append(floorRules, r)
	}
	sort.Strings(floorRules)
	for _, r := range floorRules {
		if counts[r] < res.Floors[r] {
			res.Undec(r, "instance-floor", "", fmt.Sprintf("rule matched %d instances, floor confirmed by hand is %d: the rule would pass vacuously", counts[r], res.Floors[r]))
		}
	}
	knownSet := map[string]KnownEntry{}
	for _, e := range known.Entries {
		if e.Property == res.Property && e.State == "known" {
			knownSet[e.Rule+" "+e.Construct] = e
		}
	}
	evDir := "evidence"
	if strings.HasPrefix(res.Property, "X") {
		evDir = "exploration" // exploration aids (XLOCKS, XRELAY) are not properties: keep them out of evidence/
	}
	replayDir := filepath.Join(verifDir, evDir, "replay")
	_ = os.MkdirAll(replayDir, 0o755)
	// clear old replay files of this property
	if old, _ := filepath.Glob(filepath.Join(replayDir, res.Property+"-*.json")); old != nil {
		for _, f := range old {
			_ = os.Remove(f)
		}
	}
	out := Outcome{}
	discharged, nontrivial := 0, 0
	distinct := map[string]bool{}
	var samples []any
	var bad []Obligation
	perRule := map[string]map[string]int{}
	for _, o := range res.Obligations {
		if perRule[o.Rule] == nil {
			perRule[o.Rule] = map[string]int{}
		}
		perRule[o.Rule][string(o.Status)]++
		if !o.Trivial {
			if !distinct[o.Key()] {
				distinct[o.Key()] = true
				nontrivial++
			}
		}
		if o.Status == Holds {
			discharged++
			continue
		}
		if e, ok := knownSet[o.Key()]; ok && o.Status == Violated {
			out.Known++
			out.Lines = append(out.Lines, fmt.Sprintf("KNOWN-FINDING: property=%s %s %s - %s", res.Property, o.Rule, o.Construct, e.What))
			continue
		}
		bad = append(bad, o)
	}
	// samples: a few per rule, violations first
	seenRule := map[string]int{}
	for _, o := range bad {
		samples = append(samples, o)
	}
	for _, o := range res.Obligations {
		if o.Trivial || o.Status != Holds {
			continue
		}
		if seenRule[o.Rule] < 2 && len(samples) < 60 {
			seenRule[o.Rule]++
			samples = append(samples, o)
		}
	}
	for i, o := range bad {
		out.Violations++
		p := filepath.Join(replayDir, fmt.Sprintf("%s-%d.json", res.Property, i+1))
		rb, _ := json.MarshalIndent(map[string]any{
			"property": res.Property, "rule": o.Rule, "rule_statement": res.RuleDoc[o.Rule], "construct": o.Construct,
			"status": o.Status, "pos": o.Pos, "detail": o.Detail, "trace": o.Trace, "tier": tier,
		}, "", " ")
		_ = os.WriteFile(p, rb, 0o644)
		out.Lines = append(out.Lines, fmt.Sprintf("VIOLATION property=%s replay=%s", res.Property, p))
		if !quiet {
			fmt.Printf("  [%s] %s %s @ %s: %s\n", o.Status, o.Rule, o.Construct, o.Pos, o.Detail)
			for _, t := range o.Trace {
				fmt.Printf("      %s\n", t)
			}
		}
	}
	wall := time.Since(start).Seconds()
	level := res.Level
	if level == "" {
		level = "other"
	}
	cov := map[string]any{
		"explanation":         res.Explanation,
		"obligations":         len(res.Obligations),
		"discharged":          discharged,
		"evaluations":         len(res.Obligations),
		"distinct_nontrivial": nontrivial,
		"rule":                "one evaluation = one (rule, construct) obligation decided on /repo's current source; distinct = distinct (rule, construct) keys; trivial = a construct on which the rule has nothing to decide (e.g. a root message type without a relevant field), excluded from distinct_nontrivial",
		"samples":             samples,
		"per_rule":            perRule,
		"rules":               res.RuleDoc,
		"floors":              res.Floors,
		"known_findings":      out.Known,
		"analysed":            res.Analysed,
		"notes":               res.Notes,
		"checker_cmd":         fmt.Sprintf("./run.sh %s %s", res.Property, tier),
		"trusted_base":        res.Assumptions,
	}
	for k, v := range res.Extra {
		cov[k] = v
	}
	if variants != nil {
		cov["variant_selftest"] = variants
	}
	if len(samples) == 0 {
		cov["samples"] = []any{"(no obligations)"}
	}
	ev := map[string]any{
		"property_id": res.Property,
		"tier":        tier,
		"seed":        seed,
		"level":       level,
		"coverage":    cov,
		"assumptions": res.Assumptions,
		"wall_s":      wall,
		"violations":  out.Violations,
	}
	eb, _ := json.MarshalIndent(ev, "", " ")
	_ = os.MkdirAll(filepath.Join(verifDir, evDir), 0o755)
	if err := os.WriteFile(filepath.Join(verifDir, evDir, res.Property+".json"), eb, 0o644); err != nil {
		fmt.Println("cannot write evidence:", err)
		return 2
	}
	if !quiet {
		var rules []string
		for r := range perRule {
			rules = append(rules, r)
		}
		sort.Strings(rules)
		for _, r := range rules {
			var parts []string
			for _, s := range []string{"holds", "violated", "undecided"} {
				if n := perRule[r][s]; n > 0 {
					parts = append(parts, fmt.Sprintf("%s=%d", s, n))
				}
			}
			fmt.Printf("  %-8s %s   %s\n", r, strings.Join(parts, " "), res.RuleDoc[r])
		}
		for _, n := range res.Notes {
			fmt.Println("  note:", n)
		}
	}
	for _, l := range out.Lines {
		fmt.Println(l)
	}
	fmt.Printf("%s %s: %d obligations, %d hold, %d known findings, %d violations (%.1fs)\n", res.Property, tier, len(res.Obligations), discharged, out.Known, out.Violations, wall)
	if out.Violations > 0 {
		return 1
	}
	return 0
}
