package flow

import (
	"fmt"
	"go/token"
	"go/types"
	"strings"

	"golang.org/x/tools/go/ssa"
)

// ---------------------------------------------------------------------------------------------
// P-CS critical sections

// MutexOp describes a Lock/RLock/Unlock/RUnlock call on a sync.Mutex / sync.RWMutex.
type MutexOp struct {
	Instr ssa.CallInstruction
	Op    string // Lock, RLock, Unlock, RUnlock
	Key   string // identity of the mutex: field path such as "s.streamGrowLock"
	Field string // last path element
}

func mutexOpOf(call ssa.CallInstruction) (MutexOp, bool) {
	cc := call.Common()
	f := StaticCallee(cc)
	if f == nil || f.Signature.Recv() == nil || len(cc.Args) < 1 {
		return MutexOp{}, false
	}
	rt := f.Signature.Recv().Type()
	if !(namedIs(rt, "sync", "Mutex") || namedIs(rt, "sync", "RWMutex")) {
		return MutexOp{}, false
	}
	switch f.Name() {
	case "Lock", "RLock", "Unlock", "RUnlock":
	default:
		return MutexOp{}, false
	}
	key, ok := FieldPath(cc.Args[0])
	if !ok {
		key = Describe(cc.Args[0])
	}
	field := key
	if i := strings.LastIndex(key, "."); i >= 0 {
		field = key[i+1:]
	}
	return MutexOp{call, f.Name(), key, field}, true
}

// MutexOps lists the mutex operations of f (including those inside defer instructions).
func MutexOps(f *ssa.Function) []MutexOp {
	var out []MutexOp
	for _, c := range Calls(f) {
		if op, ok := mutexOpOf(c); ok {
			out = append(out, op)
		}
	}
	return out
}

func unlockFor(op string) string {
	if op == "RLock" {
		return "RUnlock"
	}
	return "Unlock"
}

// Section is the critical section opened by one Lock/RLock call.
type Section struct {
	Lock     MutexOp
	Deferred *ssa.Defer // deferred unlock covering the section, if any
	Instrs   []ssa.Instruction
	// Unlocks are the non-deferred unlock calls that end the section
	Unlocks []ssa.CallInstruction
	// LeaksAt: an exit reachable with the lock held and no deferred unlock
	LeaksAt ssa.Instruction
}

// deferUnlocks: does the defer instruction release the mutex `key` with op `unlock` (directly or
// inside a deferred closure)?
func deferUnlocks(d *ssa.Defer, key, unlock string) bool {
	if op, ok := mutexOpOf(d); ok && op.Op == unlock && op.Key == key {
		return true
	}
	if fn := StaticCallee(&d.Call); fn != nil && fn.Blocks != nil {
		for _, c := range Calls(fn) {
			if op, ok := mutexOpOf(c); ok && op.Op == unlock {
				// free variables carry the same name as the captured variable
				if op.Key == key || strings.HasSuffix(op.Key, "."+lastElem(key)) {
					return true
				}
			}
		}
	}
	return false
}

func lastElem(k string) string {
	if i := strings.LastIndex(k, "."); i >= 0 {
		return k[i+1:]
	}
	return k
}

// Sections computes the critical sections of f.
func Sections(f *ssa.Function) []Section {
	var out []Section
	for _, op := range MutexOps(f) {
		if op.Op != "Lock" && op.Op != "RLock" {
			continue
		}
		if _, isDefer := op.Instr.(*ssa.Defer); isDefer {
			continue
		}
		sec := Section{Lock: op}
		unlock := unlockFor(op.Op)
		seen := map[*ssa.BasicBlock]bool{}
		var walk func(b *ssa.BasicBlock, start int)
		walk = func(b *ssa.BasicBlock, start int) {
			for i := start; i < len(b.Instrs); i++ {
				ins := b.Instrs[i]
				if d, ok := ins.(*ssa.Defer); ok && sec.Deferred == nil && deferUnlocks(d, op.Key, unlock) {
					sec.Deferred = d
				}
				if c, ok := ins.(ssa.CallInstruction); ok {
					if _, isDefer := ins.(*ssa.Defer); !isDefer {
						if o2, ok := mutexOpOf(c); ok && o2.Op == unlock && o2.Key == op.Key {
							sec.Unlocks = append(sec.Unlocks, c)
							return
						}
					}
				}
				sec.Instrs = append(sec.Instrs, ins)
				switch ins.(type) {
				case *ssa.Return, *ssa.Panic:
					if sec.Deferred == nil || !DeferCovers(sec.Deferred, ins) {
						if sec.LeaksAt == nil {
							sec.LeaksAt = ins
						}
					}
					return
				}
			}
			for _, s := range b.Succs {
				if !seen[s] {
					seen[s] = true
					walk(s, 0)
				}
			}
		}
		pt := After(op.Instr)
		walk(pt.Block, pt.Idx)
		out = append(out, sec)
	}
	return out
}

// TotalFuncs: callees that cannot panic for any argument (closed, conservative table).
var totalFuncPrefixes = []string{
	"(*sync/atomic.", "(sync/atomic.", "sync/atomic.",
	"time.Now", "time.Since", "(time.Time).", "(time.Duration).",
	"strconv.Itoa", "strconv.FormatBool", "strconv.FormatInt",
	"(*strings.Builder).WriteString", "(*strings.Builder).String", "(*strings.Builder).WriteByte", "(*strings.Builder).Len",
	"(*sync.Mutex).", "(*sync.RWMutex).",
}

var totalBuiltins = map[string]bool{"len": true, "cap": true, "min": true, "max": true, "delete": true, "append": true, "copy": true, "print": true, "println": true, "clear": true}

// MayPanic classifies an instruction. safeIndex, when non-nil, can vouch for an index operation.
func MayPanic(ins ssa.Instruction, extraTotal func(*ssa.Function) bool, safeIndex func(*ssa.IndexAddr) bool) (bool, string) {
	switch x := ins.(type) {
	case *ssa.Panic:
		return true, "explicit panic"
	case *ssa.Defer:
		return false, ""
	case ssa.CallInstruction:
		cc := x.Common()
		if b, ok := cc.Value.(*ssa.Builtin); ok {
			if totalBuiltins[b.Name()] {
				return false, ""
			}
			return true, "builtin " + b.Name()
		}
		if cc.IsInvoke() {
			return true, "interface call " + cc.Method.Name()
		}
		f := StaticCallee(cc)
		if f == nil {
			return true, "dynamic call"
		}
		name := FuncName(f)
		for _, p := range totalFuncPrefixes {
			if strings.HasPrefix(name, p) {
				return false, ""
			}
		}
		if extraTotal != nil && extraTotal(f) {
			return false, ""
		}
		return true, "call of " + name
	case *ssa.IndexAddr:
		if _, isArr := types.Unalias(x.X.Type()).Underlying().(*types.Pointer); isArr {
			// pointer to array: constant indices are checked at compile time
			if _, ok := ConstInt(x.Index); ok {
				return false, ""
			}
		}
		if safeIndex != nil && safeIndex(x) {
			return false, ""
		}
		return true, "index " + Describe(x.X) + "[" + Describe(x.Index) + "] not proven in range"
	case *ssa.Index:
		return true, "index operation"
	case *ssa.Slice:
		if x.Low == nil && x.High == nil {
			return false, ""
		}
		return true, "slice expression with bounds"
	case *ssa.BinOp:
		if x.Op == token.QUO || x.Op == token.REM {
			if isIntType(x.X.Type()) {
				if c, ok := ConstInt(x.Y); !ok || c == 0 {
					return true, "integer division by a non-constant"
				}
			}
		}
	case *ssa.TypeAssert:
		if !x.CommaOk {
			return true, "single-result type assertion"
		}
	case *ssa.Send:
		return true, "channel send"
	case *ssa.MapUpdate:
		return false, "" // nil-map writes are out of scope (see DESIGN)
	}
	return false, ""
}

func isIntType(t types.Type) bool {
	b, ok := types.Unalias(t).Underlying().(*types.Basic)
	return ok && b.Info()&types.IsInteger != 0
}

// RangeProvenIndex: ia indexes a slice loaded from field path P with an index i for which a dominating
// guard `i < len(Q)` holds with Q loaded from the same field path, and the function contains no store
// to that field (the lock is what keeps other goroutines out).
func RangeProvenIndex(ia *ssa.IndexAddr) bool {
	p, ok := FieldPath(ia.X)
	if !ok {
		return false
	}
	f := ia.Parent()
	for _, b := range f.Blocks {
		for _, ins := range b.Instrs {
			if st, ok := ins.(*ssa.Store); ok {
				if q, ok := FieldPath(st.Addr); ok && q == p {
					return false
				}
			}
		}
	}
	for _, g := range NormGuards(Guards(ia.Block())) {
		bo, ok := g.Cond.(*ssa.BinOp)
		if !ok || bo.Op != token.LSS || !g.Side {
			continue
		}
		if bo.X != ia.Index {
			// the index may be the loop phi; the guard compares the same phi
			continue
		}
		if call, ok := bo.Y.(*ssa.Call); ok {
			if bi, ok := call.Call.Value.(*ssa.Builtin); ok && bi.Name() == "len" {
				if q, ok := FieldPath(call.Call.Args[0]); ok && q == p {
					return true
				}
			}
		}
	}
	return false
}

// HeldAt: is instruction `at` inside some section of mutex field `field` (write-locked if write)?
func HeldAt(f *ssa.Function, at ssa.Instruction, field string, write bool) bool {
	for _, s := range Sections(f) {
		if s.Lock.Field != field {
			continue
		}
		if write && s.Lock.Op != "Lock" {
			continue
		}
		for _, ins := range s.Instrs {
			if ins == at {
				return true
			}
		}
	}
	return false
}

func (s Section) String() string {
	d := "explicit unlock"
	if s.Deferred != nil {
		d = "deferred unlock"
	}
	return fmt.Sprintf("%s %s (%s, %d instructions)", s.Lock.Op, s.Lock.Key, d, len(s.Instrs))
}
