package flow

import (
	"fmt"
	"go/token"
	"go/types"

	"golang.org/x/tools/go/ssa"
)

// ---------------------------------------------------------------------------------------------
// Slices built by literals, varargs and append (order of interceptors, option lists)

// SeqAlt is one possible content of a slice value: the elements in order, and the CFG edges (phi
// predecessor -> phi block) taken to select it.
type SeqAlt struct {
	Elems []ssa.Value
	Edges [][2]*ssa.BasicBlock
	Open  bool // contains a part the evaluator could not enumerate
}

// SliceSeqs enumerates the possible element sequences of a slice-typed value.
func SliceSeqs(v ssa.Value) []SeqAlt { return sliceSeqs(v, 0) }

func sliceSeqs(v ssa.Value, depth int) []SeqAlt {
	if depth > 12 {
		return []SeqAlt{{Open: true}}
	}
	v = ResolveLoad(v)
	switch x := v.(type) {
	case *ssa.Const:
		if x.Value == nil {
			return []SeqAlt{{}}
		}
	case *ssa.ChangeType:
		return sliceSeqs(x.X, depth+1)
	case *ssa.Phi:
		var out []SeqAlt
		for i, e := range x.Edges {
			for _, a := range sliceSeqs(e, depth+1) {
				a.Edges = append(append([][2]*ssa.BasicBlock{}, a.Edges...), [2]*ssa.BasicBlock{x.Block().Preds[i], x.Block()})
				out = append(out, a)
			}
		}
		return out
	case *ssa.Slice:
		// slice of a freshly allocated array: literal or varargs
		if al, ok := x.X.(*ssa.Alloc); ok {
			if at, ok := al.Type().Underlying().(*types.Pointer).Elem().Underlying().(*types.Array); ok {
				elems := make([]ssa.Value, at.Len())
				for _, r := range *al.Referrers() {
					ia, ok := r.(*ssa.IndexAddr)
					if !ok {
						continue
					}
					idx, ok := ConstInt(ia.Index)
					if !ok || idx < 0 || idx >= at.Len() {
						return []SeqAlt{{Open: true}}
					}
					for _, rr := range *ia.Referrers() {
						if st, ok := rr.(*ssa.Store); ok && st.Addr == ia {
							elems[idx] = st.Val
						}
					}
				}
				return []SeqAlt{{Elems: elems}}
			}
		}
		return sliceSeqs(x.X, depth+1)
	case *ssa.Call:
		if b, ok := x.Call.Value.(*ssa.Builtin); ok && b.Name() == "append" && len(x.Call.Args) == 2 {
			var out []SeqAlt
			for _, p := range sliceSeqs(x.Call.Args[0], depth+1) {
				for _, s := range sliceSeqs(x.Call.Args[1], depth+1) {
					out = append(out, SeqAlt{
						Elems: append(append([]ssa.Value{}, p.Elems...), s.Elems...),
						Edges: append(append([][2]*ssa.BasicBlock{}, p.Edges...), s.Edges...),
						Open:  p.Open || s.Open,
					})
				}
			}
			return out
		}
	}
	return []SeqAlt{{Elems: []ssa.Value{v}, Open: true}}
}

// EdgeGuards returns the branch conditions known on the CFG edge pred->blk.
func EdgeGuards(pred, blk *ssa.BasicBlock) []Guard {
	gs := Guards(pred)
	if iff := lastIf(pred); iff != nil && len(pred.Succs) == 2 && pred.Succs[0] != pred.Succs[1] {
		if pred.Succs[0] == blk {
			gs = append(gs, Guard{iff.Cond, true, iff})
		} else if pred.Succs[1] == blk {
			gs = append(gs, Guard{iff.Cond, false, iff})
		}
	}
	return NormGuards(gs)
}

// ---------------------------------------------------------------------------------------------
// Struct literals / field stores

// FieldStores collects, for a struct held in a cell (Alloc of struct type), the values stored to each
// field through direct FieldAddr stores. Fields stored more than once map to nil with multi=true.
func FieldStores(cell ssa.Value) (fields map[string]ssa.Value, multi map[string]bool) {
	fields = map[string]ssa.Value{}
	multi = map[string]bool{}
	refs := cell.Referrers()
	if refs == nil {
		return
	}
	for _, r := range *refs {
		fa, ok := r.(*ssa.FieldAddr)
		if !ok || fa.X != cell {
			continue
		}
		name := FieldName(fa.X.Type(), fa.Field)
		for _, rr := range *fa.Referrers() {
			if st, ok := rr.(*ssa.Store); ok && st.Addr == fa {
				if _, dup := fields[name]; dup {
					multi[name] = true
				}
				fields[name] = st.Val
			}
		}
	}
	return
}

// FieldLoadOf recognises `*(&X.f)` / `X.f` and returns (X, fieldname).
func FieldLoadOf(v ssa.Value) (ssa.Value, string, bool) {
	switch x := v.(type) {
	case *ssa.UnOp:
		if x.Op == token.MUL {
			if fa, ok := x.X.(*ssa.FieldAddr); ok {
				return fa.X, FieldName(fa.X.Type(), fa.Field), true
			}
		}
	case *ssa.Field:
		return x.X, FieldName(x.X.Type(), x.Field), true
	}
	return nil, "", false
}

// FieldPath renders chains like param.Remote.TcpServer for loads through FieldAddr/Field chains
// rooted at a parameter, a parameter spilled to a cell, a free variable or a global.
func FieldPath(v ssa.Value) (string, bool) {
	switch x := v.(type) {
	case *ssa.Parameter:
		return x.Name(), true
	case *ssa.FreeVar:
		return x.Name(), true
	case *ssa.Global:
		return x.Name(), true
	case *ssa.Alloc:
		// a parameter spilled to a cell: the single store of a Parameter
		var src ssa.Value
		n := 0
		for _, r := range *x.Referrers() {
			if st, ok := r.(*ssa.Store); ok && st.Addr == x {
				n++
				src = st.Val
			}
		}
		if n == 1 {
			if p, ok := src.(*ssa.Parameter); ok {
				return p.Name(), true
			}
		}
		if x.Comment != "" {
			return "local(" + x.Comment + ")", true
		}
		return "", false
	case *ssa.UnOp:
		if x.Op == token.MUL {
			if fa, ok := x.X.(*ssa.FieldAddr); ok {
				if base, ok := FieldPath(fa.X); ok {
					return base + "." + FieldName(fa.X.Type(), fa.Field), true
				}
				return "", false
			}
			return FieldPath(x.X)
		}
	case *ssa.FieldAddr:
		if base, ok := FieldPath(x.X); ok {
			return base + "." + FieldName(x.X.Type(), x.Field), true
		}
	case *ssa.Field:
		if base, ok := FieldPath(x.X); ok {
			return base + "." + FieldName(x.X.Type(), x.Field), true
		}
	case *ssa.ChangeType:
		return FieldPath(x.X)
	case *ssa.MakeInterface:
		return FieldPath(x.X)
	case *ssa.ChangeInterface:
		return FieldPath(x.X)
	case *ssa.IndexAddr:
		if base, ok := FieldPath(x.X); ok {
			return base + "[]", true
		}
	case *ssa.Extract:
		if base, ok := FieldPath(x.Tuple); ok {
			return fmt.Sprintf("%s#%d", base, x.Index), true
		}
	case *ssa.TypeAssert:
		if base, ok := FieldPath(x.X); ok {
			return base + ".(assert)", true
		}
	case *ssa.Call:
		if f := StaticCallee(&x.Call); f != nil {
			return "call(" + f.Name() + ")", true
		}
		if x.Call.IsInvoke() {
			return "call(" + x.Call.Method.Name() + ")", true
		}
	case *ssa.Select:
		return "select", true
	case *ssa.Next:
		return "range", true
	case *ssa.Lookup:
		if base, ok := FieldPath(x.X); ok {
			return base + "[]", true
		}
	}
	return "", false
}

// BoundMethod recognises a method value (bound method closure) and returns receiver value,
// receiver type and method name.
func BoundMethod(v ssa.Value) (recv ssa.Value, name string, ok bool) {
	v = Strip(v)
	mc, isMC := v.(*ssa.MakeClosure)
	if !isMC || len(mc.Bindings) != 1 {
		return nil, "", false
	}
	f, isF := mc.Fn.(*ssa.Function)
	if !isF {
		return nil, "", false
	}
	n := f.Name()
	const suffix = "$bound"
	if len(n) <= len(suffix) || n[len(n)-len(suffix):] != suffix {
		return nil, "", false
	}
	return mc.Bindings[0], n[:len(n)-len(suffix)], true
}

// ReachBlock: is `to` reachable from `from` over edges accepted by edgeOK (nil = all)?
func ReachBlock(from, to *ssa.BasicBlock, edgeOK func(a, b *ssa.BasicBlock) bool) bool {
	seen := map[*ssa.BasicBlock]bool{from: true}
	work := []*ssa.BasicBlock{from}
	for len(work) > 0 {
		b := work[len(work)-1]
		work = work[:len(work)-1]
		if b == to {
			return true
		}
		for _, s := range b.Succs {
			if edgeOK != nil && !edgeOK(b, s) {
				continue
			}
			if !seen[s] {
				seen[s] = true
				work = append(work, s)
			}
		}
	}
	return false
}

// StructFieldOrigin traces the value of field `field` of a struct held in a local cell: a direct
// store to &cell.field, or a whole-struct store from a composite literal / another cell / a call.
// Returns nil when the origin is ambiguous.
func StructFieldOrigin(cell ssa.Value, field string, depth int) ssa.Value {
	if depth > 4 || cell == nil {
		return nil
	}
	refs := cell.Referrers()
	if refs == nil {
		return nil
	}
	var direct []ssa.Value
	var directSt []*ssa.Store
	var loads []ssa.Instruction
	var whole []ssa.Value
	for _, r := range *refs {
		switch x := r.(type) {
		case *ssa.FieldAddr:
			if x.X == cell && FieldName(x.X.Type(), x.Field) == field {
				for _, rr := range *x.Referrers() {
					if st, ok := rr.(*ssa.Store); ok && st.Addr == x {
						direct = append(direct, st.Val)
						directSt = append(directSt, st)
					} else if ld, ok := rr.(*ssa.UnOp); ok && ld.Op == token.MUL {
						loads = append(loads, ld)
					}
				}
			}
		case *ssa.UnOp:
			if x.Op == token.MUL && x.X == cell {
				loads = append(loads, x)
			}
		case *ssa.Store:
			if x.Addr == cell {
				whole = append(whole, x.Val)
			}
		}
	}
	if len(direct) == 1 {
		// a single field store is the origin only if it precedes every read of the field: a store under a
		// condition (x.f = v inside an if, after a literal that already set f) leaves the earlier value visible
		if len(whole) > 0 {
			for _, ld := range loads {
				if !InstrDominates(directSt[0], ld) {
					return nil
				}
			}
		}
		return direct[0]
	}
	if len(direct) > 1 {
		return nil
	}
	if len(whole) == 1 {
		return StructValueField(whole[0], field, depth+1)
	}
	return nil
}

// StructValueField traces field `field` of a struct-typed value.
func StructValueField(v ssa.Value, field string, depth int) ssa.Value {
	if depth > 5 || v == nil {
		return nil
	}
	switch x := v.(type) {
	case *ssa.UnOp:
		if x.Op == token.MUL {
			if al, ok := x.X.(*ssa.Alloc); ok {
				return StructFieldOrigin(al, field, depth+1)
			}
		}
	case *ssa.Parameter, *ssa.Call, *ssa.Extract:
		return nil
	}
	return nil
}
