// Package flow holds the SSA helpers the path rules are built from: guards (dominating branch
// conditions), must-pass-through on the instruction level, callee resolution, deferred calls,
// block-local memory forwarding for closure-captured cells, and value identity.
package flow

import (
	"fmt"
	"go/constant"
	"go/token"
	"go/types"
	"sort"
	"strings"

	"golang.org/x/tools/go/ssa"
)

// ---------------------------------------------------------------------------------------------
// Callee resolution

// CalleeName renders the callee of a call: "pkgpath.Func", "(pkgpath.T).Method" / "(*pkgpath.T).Method"
// for static calls, "invoke pkgpath.Iface.Method" for interface calls, "builtin name", "dynamic".
func CalleeName(c *ssa.CallCommon) string {
	if c.IsInvoke() {
		recv := c.Value.Type()
		return "invoke " + types.TypeString(recv, nil) + "." + c.Method.Name()
	}
	switch v := c.Value.(type) {
	case *ssa.Function:
		return FuncName(v)
	case *ssa.Builtin:
		return "builtin " + v.Name()
	case *ssa.MakeClosure:
		if f, ok := v.Fn.(*ssa.Function); ok {
			return FuncName(f)
		}
	}
	return "dynamic"
}

// FuncName is a stable, position-free name of a function (origin for instantiations).
func FuncName(f *ssa.Function) string {
	if f == nil {
		return "<nil>"
	}
	if o := f.Origin(); o != nil {
		f = o
	}
	return f.String()
}

// StaticCallee returns the callee function for static calls and immediately-applied closures.
func StaticCallee(c *ssa.CallCommon) *ssa.Function {
	if c.IsInvoke() {
		return nil
	}
	switch v := c.Value.(type) {
	case *ssa.Function:
		return v
	case *ssa.MakeClosure:
		if f, ok := v.Fn.(*ssa.Function); ok {
			return f
		}
	}
	return nil
}

// IsCallTo reports whether the call's callee is pkgPath.name (function) or a method `name` whose
// receiver's named type is pkgPath.recv (pointer or value receiver; interface invoke also matches).
func IsCallTo(c *ssa.CallCommon, pkgPath, recv, name string) bool {
	if c.IsInvoke() {
		if c.Method.Name() != name || recv == "" {
			return false
		}
		return namedIs(c.Value.Type(), pkgPath, recv)
	}
	f := StaticCallee(c)
	if f == nil {
		return false
	}
	if o := f.Origin(); o != nil {
		f = o
	}
	if f.Name() != name {
		return false
	}
	if recv == "" {
		return f.Signature.Recv() == nil && f.Pkg != nil && f.Pkg.Pkg.Path() == pkgPath && f.Parent() == nil
	}
	r := f.Signature.Recv()
	if r == nil {
		return false
	}
	return namedIs(r.Type(), pkgPath, recv)
}

func namedIs(t types.Type, pkgPath, name string) bool {
	t = types.Unalias(t)
	if p, ok := t.(*types.Pointer); ok {
		t = types.Unalias(p.Elem())
	}
	n, ok := t.(*types.Named)
	if !ok {
		return false
	}
	if n.Obj().Name() != name {
		return false
	}
	if n.Obj().Pkg() == nil {
		return pkgPath == ""
	}
	return n.Obj().Pkg().Path() == pkgPath
}

// NamedIs is the exported form of namedIs.
func NamedIs(t types.Type, pkgPath, name string) bool { return namedIs(t, pkgPath, name) }

// Calls lists all call-like instructions (call, go, defer) of a function in block order.
func Calls(f *ssa.Function) []ssa.CallInstruction {
	var out []ssa.CallInstruction
	for _, b := range f.Blocks {
		for _, ins := range b.Instrs {
			if c, ok := ins.(ssa.CallInstruction); ok {
				out = append(out, c)
			}
		}
	}
	return out
}

// FindCalls returns the call instructions of f matching pred.
func FindCalls(f *ssa.Function, pred func(*ssa.CallCommon) bool) []ssa.CallInstruction {
	var out []ssa.CallInstruction
	for _, c := range Calls(f) {
		if pred(c.Common()) {
			out = append(out, c)
		}
	}
	return out
}

// AnonFuncsDeep lists f's anonymous functions, recursively.
func AnonFuncsDeep(f *ssa.Function) []*ssa.Function {
	var out []*ssa.Function
	var rec func(g *ssa.Function)
	rec = func(g *ssa.Function) {
		for _, a := range g.AnonFuncs {
			out = append(out, a)
			rec(a)
		}
	}
	rec(f)
	return out
}

// ---------------------------------------------------------------------------------------------
// Guards

// Guard is a branch condition known to have a given outcome whenever the guarded block executes.
type Guard struct {
	Cond ssa.Value
	Side bool
	If   *ssa.If
}

func (g Guard) String() string {
	s := "false"
	if g.Side {
		s = "true"
	}
	return fmt.Sprintf("%s is %s", Describe(g.Cond), s)
}

func lastIf(b *ssa.BasicBlock) *ssa.If {
	if len(b.Instrs) == 0 {
		return nil
	}
	iff, _ := b.Instrs[len(b.Instrs)-1].(*ssa.If)
	return iff
}

// edgeDominates reports whether every path to `b` passes through the CFG edge d->s.
func edgeDominates(d, s, b *ssa.BasicBlock) bool {
	if !s.Dominates(b) {
		return false
	}
	for _, p := range s.Preds {
		if p == d {
			continue
		}
		// other predecessors must be back edges from inside s's dominance region
		if !s.Dominates(p) {
			return false
		}
	}
	// d->s must be a single edge kind: if both successors are s the condition says nothing
	return true
}

// Guards returns the conditions that dominate block b with a fixed outcome.
func Guards(b *ssa.BasicBlock) []Guard {
	var out []Guard
	for d := b.Idom(); d != nil; d = d.Idom() {
		iff := lastIf(d)
		if iff == nil || len(d.Succs) != 2 || d.Succs[0] == d.Succs[1] {
			continue
		}
		if edgeDominates(d, d.Succs[0], b) {
			out = append(out, Guard{iff.Cond, true, iff})
		} else if edgeDominates(d, d.Succs[1], b) {
			out = append(out, Guard{iff.Cond, false, iff})
		}
	}
	return out
}

// NormGuards expands guards through negation and ==/!= true/false so Cond is never a `!x`.
func NormGuards(gs []Guard) []Guard {
	var out []Guard
	for _, g := range gs {
		for {
			if u, ok := g.Cond.(*ssa.UnOp); ok && u.Op == token.NOT {
				g = Guard{u.X, !g.Side, g.If}
				continue
			}
			break
		}
		out = append(out, g)
	}
	return out
}

// ---------------------------------------------------------------------------------------------
// Value helpers

// Describe renders a value compactly for reports.
func Describe(v ssa.Value) string {
	switch x := v.(type) {
	case nil:
		return "<nil>"
	case *ssa.Const:
		if x.Value == nil {
			return "nil"
		}
		return x.Value.String()
	case *ssa.Call:
		var as []string
		for _, a := range x.Call.Args {
			as = append(as, shortVal(a))
		}
		return shortCallee(&x.Call) + "(" + strings.Join(as, ", ") + ")"
	case *ssa.BinOp:
		return "(" + shortVal(x.X) + " " + x.Op.String() + " " + shortVal(x.Y) + ")"
	case *ssa.UnOp:
		return x.Op.String() + shortVal(x.X)
	case *ssa.Extract:
		return fmt.Sprintf("%s#%d", shortVal(x.Tuple), x.Index)
	case *ssa.FieldAddr:
		return "&" + shortVal(x.X) + "." + FieldName(x.X.Type(), x.Field)
	case *ssa.Field:
		return shortVal(x.X) + "." + FieldName(x.X.Type(), x.Field)
	case *ssa.Parameter:
		return x.Name()
	case *ssa.FreeVar:
		return x.Name()
	case *ssa.TypeAssert:
		return shortVal(x.X) + ".(" + types.TypeString(x.AssertedType, func(p *types.Package) string { return p.Name() }) + ")"
	}
	return v.Name()
}

func shortCallee(c *ssa.CallCommon) string {
	if c.IsInvoke() {
		return shortVal(c.Value) + "." + c.Method.Name()
	}
	if f := StaticCallee(c); f != nil {
		return f.Name()
	}
	if b, ok := c.Value.(*ssa.Builtin); ok {
		return b.Name()
	}
	return shortVal(c.Value)
}

func shortVal(v ssa.Value) string {
	switch x := v.(type) {
	case *ssa.Const, *ssa.Parameter, *ssa.FreeVar, *ssa.FieldAddr, *ssa.Field, *ssa.Extract:
		return Describe(x)
	case *ssa.Call:
		return shortCallee(&x.Call) + "(..)"
	case *ssa.UnOp:
		if x.Op == token.MUL {
			return "*" + shortVal(x.X)
		}
		return x.Op.String() + shortVal(x.X)
	case *ssa.Function:
		return x.Name()
	case *ssa.Global:
		return x.Name()
	}
	return v.Name()
}

// FieldName names field i of the struct (or pointer to struct) type t.
func FieldName(t types.Type, i int) string {
	t = types.Unalias(t)
	if p, ok := t.Underlying().(*types.Pointer); ok {
		t = p.Elem()
	}
	if s, ok := t.Underlying().(*types.Struct); ok && i < s.NumFields() {
		return s.Field(i).Name()
	}
	return fmt.Sprint(i)
}

// IsNilConst / IsConstBool / ConstInt
func IsNilConst(v ssa.Value) bool {
	c, ok := v.(*ssa.Const)
	return ok && c.Value == nil
}

func ConstBool(v ssa.Value) (bool, bool) {
	c, ok := v.(*ssa.Const)
	if !ok || c.Value == nil || c.Value.Kind() != constant.Bool {
		return false, false
	}
	return constant.BoolVal(c.Value), true
}

func ConstInt(v ssa.Value) (int64, bool) {
	c, ok := v.(*ssa.Const)
	if !ok || c.Value == nil || c.Value.Kind() != constant.Int {
		return 0, false
	}
	i, ok := constant.Int64Val(c.Value)
	return i, ok
}

func ConstString(v ssa.Value) (string, bool) {
	c, ok := v.(*ssa.Const)
	if !ok || c.Value == nil || c.Value.Kind() != constant.String {
		return "", false
	}
	return constant.StringVal(c.Value), true
}

// Strip removes value-preserving wrappers: ChangeType, MakeInterface, ChangeInterface, Convert
// between identical underlying types, single-edge phis.
func Strip(v ssa.Value) ssa.Value {
	for {
		switch x := v.(type) {
		case *ssa.ChangeType:
			v = x.X
		case *ssa.MakeInterface:
			v = x.X
		case *ssa.ChangeInterface:
			v = x.X
		case *ssa.Phi:
			var only ssa.Value
			same := true
			for _, e := range x.Edges {
				if e == x {
					continue
				}
				if only == nil {
					only = e
				} else if only != e {
					same = false
				}
			}
			if same && only != nil {
				v = only
				continue
			}
			return v
		default:
			return v
		}
	}
}

// ---------------------------------------------------------------------------------------------
// Memory forwarding for cells (P-MEM)

// CellOf returns the Alloc or FreeVar (captured cell) or Global a load/store address refers to.
func CellOf(addr ssa.Value) ssa.Value {
	switch x := addr.(type) {
	case *ssa.Alloc:
		return x
	case *ssa.FreeVar:
		return x
	case *ssa.Global:
		return x
	}
	return nil
}

// ResolveLoad maps a load `*cell` to the value most recently stored to the same cell, when that
// store is in the same block before the load with no intervening call/store that could write the
// cell, or when a unique store to the cell dominates the load and the cell does not escape to a
// closure or call in between (conservative: only for Allocs whose other referrers are loads,
// stores and MakeClosure bindings of functions that do not store to it).
func ResolveLoad(v ssa.Value) ssa.Value {
	for i := 0; i < 8; i++ {
		u, ok := v.(*ssa.UnOp)
		if !ok || u.Op != token.MUL {
			return v
		}
		cell := CellOf(u.X)
		if cell == nil {
			return v
		}
		st := reachingStore(u, cell)
		if st == nil {
			return v
		}
		v = st.Val
	}
	return v
}

func mayWriteCell(ins ssa.Instruction, cell ssa.Value) bool {
	switch x := ins.(type) {
	case *ssa.Store:
		return x.Addr == cell
	case ssa.CallInstruction:
		c := x.Common()
		for _, a := range c.Args {
			if a == cell {
				return true
			}
		}
		// a closure that captured the cell and stores to it
		var fn *ssa.Function
		if mc, ok := c.Value.(*ssa.MakeClosure); ok {
			fn, _ = mc.Fn.(*ssa.Function)
			for i, b := range mc.Bindings {
				if b == cell && fn != nil && i < len(fn.FreeVars) && storesTo(fn, fn.FreeVars[i]) {
					return true
				}
			}
			return false
		}
		// any other call could invoke a closure that captured the cell
		if al, ok := cell.(*ssa.Alloc); ok {
			return capturedByWriter(al)
		}
		return true
	}
	return false
}

func storesTo(fn *ssa.Function, fv *ssa.FreeVar) bool {
	for _, r := range *fv.Referrers() {
		if st, ok := r.(*ssa.Store); ok && st.Addr == fv {
			return true
		}
		if mc, ok := r.(*ssa.MakeClosure); ok {
			if g, ok := mc.Fn.(*ssa.Function); ok {
				for i, b := range mc.Bindings {
					if b == fv && i < len(g.FreeVars) && storesTo(g, g.FreeVars[i]) {
						return true
					}
				}
			}
		}
	}
	return false
}

func capturedByWriter(al *ssa.Alloc) bool {
	for _, r := range *al.Referrers() {
		switch x := r.(type) {
		case *ssa.MakeClosure:
			if g, ok := x.Fn.(*ssa.Function); ok {
				for i, b := range x.Bindings {
					if b == al && i < len(g.FreeVars) && storesTo(g, g.FreeVars[i]) {
						return true
					}
				}
			}
		case *ssa.Store:
			if x.Val == al { // address escapes
				return true
			}
		case ssa.CallInstruction:
			for _, a := range x.Common().Args {
				if a == al {
					return true
				}
			}
		}
	}
	return false
}

func reachingStore(load *ssa.UnOp, cell ssa.Value) *ssa.Store {
	b := load.Block()
	// same block, backwards
	idx := -1
	for i, ins := range b.Instrs {
		if ins == ssa.Instruction(load) {
			idx = i
			break
		}
	}
	for i := idx - 1; i >= 0; i-- {
		ins := b.Instrs[i]
		if st, ok := ins.(*ssa.Store); ok && st.Addr == cell {
			return st
		}
		if mayWriteCell(ins, cell) {
			return nil
		}
	}
	// unique dominating store with no other writer on any path in between
	al, ok := cell.(*ssa.Alloc)
	if !ok {
		return nil
	}
	var stores []*ssa.Store
	for _, r := range *al.Referrers() {
		if st, ok := r.(*ssa.Store); ok && st.Addr == al {
			stores = append(stores, st)
		}
	}
	var cand *ssa.Store
	for _, st := range stores {
		if st.Block() != b && st.Block().Dominates(b) {
			if cand == nil || cand.Block().Dominates(st.Block()) {
				cand = st
			}
		}
	}
	if cand == nil {
		return nil
	}
	// no other write can occur on a path cand -> load: check all blocks reachable from cand's block
	// that can reach b (excluding paths through cand's block again).
	between := blocksBetween(cand.Block(), b)
	for blk := range between {
		for i, ins := range blk.Instrs {
			if blk == cand.Block() {
				// only instructions after cand
				ci := indexOf(blk, cand)
				if i <= ci {
					continue
				}
			}
			if blk == b && i >= idx {
				break
			}
			if ins == ssa.Instruction(cand) {
				continue
			}
			if mayWriteCell(ins, cell) {
				return nil
			}
		}
	}
	return cand
}

func indexOf(b *ssa.BasicBlock, ins ssa.Instruction) int {
	for i, x := range b.Instrs {
		if x == ins {
			return i
		}
	}
	return -1
}

// blocksBetween: blocks on some path from a to b (inclusive).
func blocksBetween(a, b *ssa.BasicBlock) map[*ssa.BasicBlock]bool {
	fwd := map[*ssa.BasicBlock]bool{}
	var f func(x *ssa.BasicBlock)
	f = func(x *ssa.BasicBlock) {
		if fwd[x] {
			return
		}
		fwd[x] = true
		if x == b {
			return
		}
		for _, s := range x.Succs {
			f(s)
		}
	}
	f(a)
	bwd := map[*ssa.BasicBlock]bool{}
	var g func(x *ssa.BasicBlock)
	g = func(x *ssa.BasicBlock) {
		if bwd[x] {
			return
		}
		bwd[x] = true
		if x == a {
			return
		}
		for _, p := range x.Preds {
			g(p)
		}
	}
	g(b)
	out := map[*ssa.BasicBlock]bool{}
	for x := range fwd {
		if bwd[x] {
			out[x] = true
		}
	}
	return out
}

// ---------------------------------------------------------------------------------------------
// Must-pass-through on instruction granularity

// Point is a position in a function: before instruction Idx of Block.
type Point struct {
	Block *ssa.BasicBlock
	Idx   int
}

func PointOf(ins ssa.Instruction) Point {
	return Point{ins.Block(), indexOf(ins.Block(), ins)}
}

// After returns the point just after ins.
func After(ins ssa.Instruction) Point {
	p := PointOf(ins)
	p.Idx++
	return p
}

// PathResult describes a path found by FindPath.
type PathResult struct {
	Found bool
	End   ssa.Instruction
	Via   []*ssa.BasicBlock
}

// FindPath searches a CFG path starting at `from` that reaches an instruction satisfying target
// without first executing an instruction satisfying through. edgeOK, when non-nil, can veto CFG
// edges (used to prune branches on known conditions). Returns the first such path.
func FindPath(from Point, target, through func(ssa.Instruction) bool, edgeOK func(from, to *ssa.BasicBlock) bool) PathResult {
	seen := map[*ssa.BasicBlock]bool{}
	var path []*ssa.BasicBlock
	var res PathResult
	var dfs func(b *ssa.BasicBlock, start int) bool
	dfs = func(b *ssa.BasicBlock, start int) bool {
		path = append(path, b)
		defer func() { path = path[:len(path)-1] }()
		for i := start; i < len(b.Instrs); i++ {
			ins := b.Instrs[i]
			if through(ins) {
				return false
			}
			if target(ins) {
				res = PathResult{true, ins, append([]*ssa.BasicBlock(nil), path...)}
				return true
			}
		}
		for _, s := range b.Succs {
			if edgeOK != nil && !edgeOK(b, s) {
				continue
			}
			if seen[s] {
				continue
			}
			seen[s] = true
			if dfs(s, 0) {
				return true
			}
		}
		return false
	}
	if from.Idx == 0 {
		seen[from.Block] = true
	}
	dfs(from.Block, from.Idx)
	return res
}

// IsReturn / IsExit predicates
func IsReturn(ins ssa.Instruction) bool { _, ok := ins.(*ssa.Return); return ok }
func IsPanic(ins ssa.Instruction) bool  { _, ok := ins.(*ssa.Panic); return ok }

// BlockPath renders a block path for reports.
func BlockPath(bs []*ssa.BasicBlock) string {
	var s []string
	for _, b := range bs {
		c := b.Comment
		if c == "" {
			c = "b"
		}
		s = append(s, fmt.Sprintf("%d:%s", b.Index, c))
	}
	return strings.Join(s, " -> ")
}

// ---------------------------------------------------------------------------------------------
// Defers

// Defers returns the defer instructions of f.
func Defers(f *ssa.Function) []*ssa.Defer {
	var out []*ssa.Defer
	for _, b := range f.Blocks {
		for _, ins := range b.Instrs {
			if d, ok := ins.(*ssa.Defer); ok {
				out = append(out, d)
			}
		}
	}
	return out
}

// DeferCovers reports whether the defer instruction executes before `at` on every path (block
// dominance, or earlier in the same block).
func DeferCovers(d *ssa.Defer, at ssa.Instruction) bool {
	if d.Block() == at.Block() {
		return indexOf(d.Block(), d) < indexOf(at.Block(), at)
	}
	return d.Block().Dominates(at.Block())
}

// InstrDominates: a executes before b on every path to b.
func InstrDominates(a, b ssa.Instruction) bool {
	if a.Block() == b.Block() {
		return indexOf(a.Block(), a) < indexOf(b.Block(), b)
	}
	return a.Block().Dominates(b.Block())
}

// DeferredFunc returns the function run by a defer (closure or static).
func DeferredFunc(d *ssa.Defer) *ssa.Function { return StaticCallee(&d.Call) }

// ---------------------------------------------------------------------------------------------
// Reachability over the static call graph within a set of functions

// Callees returns the statically resolved callees of f, including closures created in f (a
// closure that is created is assumed to be called) when includeClosures is set.
func Callees(f *ssa.Function, includeClosures bool) []*ssa.Function {
	seen := map[*ssa.Function]bool{}
	var out []*ssa.Function
	add := func(g *ssa.Function) {
		if g != nil && !seen[g] {
			seen[g] = true
			out = append(out, g)
		}
	}
	for _, b := range f.Blocks {
		for _, ins := range b.Instrs {
			if c, ok := ins.(ssa.CallInstruction); ok {
				add(StaticCallee(c.Common()))
			}
			if includeClosures {
				if mc, ok := ins.(*ssa.MakeClosure); ok {
					if g, ok := mc.Fn.(*ssa.Function); ok {
						add(g)
					}
				}
			}
		}
	}
	sort.Slice(out, func(i, j int) bool { return out[i].String() < out[j].String() })
	return out
}

// Reachable computes the functions reachable from roots through static calls, closures created,
// and `resolve` (extra resolution of dynamic calls: interface invokes, function-valued fields).
func Reachable(roots []*ssa.Function, resolve func(ssa.CallInstruction) []*ssa.Function) map[*ssa.Function]bool {
	seen := map[*ssa.Function]bool{}
	var work []*ssa.Function
	push := func(f *ssa.Function) {
		if f != nil && !seen[f] {
			seen[f] = true
			work = append(work, f)
		}
	}
	for _, r := range roots {
		push(r)
	}
	for len(work) > 0 {
		f := work[len(work)-1]
		work = work[:len(work)-1]
		for _, g := range Callees(f, true) {
			push(g)
		}
		if resolve != nil {
			for _, c := range Calls(f) {
				for _, g := range resolve(c) {
					push(g)
				}
			}
		}
	}
	return seen
}

// Ret returns the operands of a return with defer-spilled results resolved: in functions that use
// defer, go/ssa stores the results into cells, runs the defers and reloads them.
func Ret(ret *ssa.Return) []ssa.Value {
	out := make([]ssa.Value, len(ret.Results))
	for i, r := range ret.Results {
		out[i] = ResolveLoad(r)
	}
	return out
}

// SameValue: a and b denote the same value: identical SSA values, or structurally equal pure
// expressions (go/ssa performs no common-subexpression elimination): field selections, conversions
// and loads of the same field address of the same base.
func SameValue(a, b ssa.Value) bool {
	return sameValue(a, b, 0)
}

func sameValue(a, b ssa.Value, d int) bool {
	if a == b {
		return true
	}
	if d > 6 || a == nil || b == nil {
		return false
	}
	a, b = Strip(ResolveLoad(a)), Strip(ResolveLoad(b))
	if a == b {
		return true
	}
	switch x := a.(type) {
	case *ssa.Field:
		if y, ok := b.(*ssa.Field); ok {
			return x.Field == y.Field && sameValue(x.X, y.X, d+1)
		}
	case *ssa.FieldAddr:
		if y, ok := b.(*ssa.FieldAddr); ok {
			return x.Field == y.Field && sameValue(x.X, y.X, d+1)
		}
	case *ssa.UnOp:
		if y, ok := b.(*ssa.UnOp); ok && x.Op == y.Op {
			if x.Op == token.MUL {
				// loads: same address and no store to that field in the function
				if !sameValue(x.X, y.X, d+1) {
					return false
				}
				if fa, ok := x.X.(*ssa.FieldAddr); ok {
					return !fieldEverStored(fa)
				}
				if cell := CellOf(x.X); cell != nil {
					// two loads of one captured/local cell that this function never stores to
					if refs := cell.Referrers(); refs != nil {
						for _, r := range *refs {
							if st, ok := r.(*ssa.Store); ok && st.Addr == cell {
								return false
							}
						}
					}
					return true
				}
				return false
			}
			return sameValue(x.X, y.X, d+1)
		}
	case *ssa.Convert:
		if y, ok := b.(*ssa.Convert); ok {
			return types.Identical(x.Type(), y.Type()) && sameValue(x.X, y.X, d+1)
		}
	case *ssa.Const:
		if y, ok := b.(*ssa.Const); ok {
			return x.Value != nil && y.Value != nil && x.Value.ExactString() == y.Value.ExactString() && types.Identical(x.Type(), y.Type())
		}
	}
	return false
}

func fieldEverStored(fa *ssa.FieldAddr) bool {
	f := fa.Parent()
	for _, b := range f.Blocks {
		for _, ins := range b.Instrs {
			if st, ok := ins.(*ssa.Store); ok {
				if g, ok := st.Addr.(*ssa.FieldAddr); ok && g.Field == fa.Field && types.Identical(g.X.Type(), fa.X.Type()) {
					return true
				}
			}
		}
	}
	return false
}
