// Package typegraph walks Go type graphs the way github.com/keilerkonzept/visit walks values at run
// time: struct fields, pointer/interface elements, slice/array elements, map keys and values.
// Interface-typed fields (protobuf oneofs) are resolved to the struct types of the declaring
// package whose pointer type implements the interface. A named struct type that re-appears on the
// current path cuts the walk (the set of distinct (struct, field) sites is then complete).
package typegraph

import (
	"go/types"
	"sort"
	"strings"
)

type Holder int

const (
	Root Holder = iota
	StructField
	PtrElem
	IfaceElem
	SliceElem
	MapKey
	MapValue
)

func (h Holder) String() string {
	return [...]string{"root", "struct-field", "ptr-elem", "iface-elem", "slice-elem", "map-key", "map-value"}[h]
}

// Node is one value position of the (typed) walk.
type Node struct {
	Type   types.Type
	Holder Holder
	Owner  *types.Named // struct type holding the field (Holder == StructField)
	Field  *types.Var   // the field (Holder == StructField)
	Path   []string
	Depth  int
}

func (n *Node) PathString() string { return strings.Join(n.Path, "/") }

// SiteKey names a struct field independent of the path: pkgname.Struct.Field
func SiteKey(owner *types.Named, f *types.Var) string {
	return PkgShort(owner.Obj().Pkg()) + "." + owner.Obj().Name() + "." + f.Name()
}

// PkgShort names a package by the last path element that is not a version ("replication" for
// go.temporal.io/server/api/replication/v1, whose Go package name is misspelt upstream).
func PkgShort(p *types.Package) string {
	parts := strings.Split(p.Path(), "/")
	for i := len(parts) - 1; i >= 0; i-- {
		if len(parts[i]) >= 2 && parts[i][0] == 'v' && parts[i][1] >= '0' && parts[i][1] <= '9' {
			continue
		}
		return parts[i]
	}
	return p.Name()
}

func ShortType(t types.Type) string {
	return types.TypeString(t, func(p *types.Package) string { return p.Name() })
}

type Walker struct {
	impls map[*types.Named][]*types.Named
	// IncludeUnexported: visit's callback in the repo returns Skip for unexported fields; default false.
	IncludeUnexported bool
	Nodes             int
}

func New() *Walker { return &Walker{impls: map[*types.Named][]*types.Named{}} }

// ImplsOf lists the named struct types of the interface's package whose pointer implements it.
func (w *Walker) ImplsOf(iface *types.Named) []*types.Named {
	if r, ok := w.impls[iface]; ok {
		return r
	}
	var res []*types.Named
	pkg := iface.Obj().Pkg()
	it, _ := iface.Underlying().(*types.Interface)
	if pkg == nil || it == nil {
		return nil
	}
	names := pkg.Scope().Names()
	sort.Strings(names)
	for _, name := range names {
		tn, ok := pkg.Scope().Lookup(name).(*types.TypeName)
		if !ok {
			continue
		}
		n, ok := tn.Type().(*types.Named)
		if !ok {
			continue
		}
		if _, isStruct := n.Underlying().(*types.Struct); !isStruct {
			continue
		}
		if it.NumMethods() == 0 {
			continue
		}
		if types.Implements(types.NewPointer(n), it) {
			res = append(res, n)
		}
	}
	w.impls[iface] = res
	return res
}

// Walk visits every node below root. fn returns false to prune below that node (visit.Skip).
func (w *Walker) Walk(root types.Type, fn func(n *Node) bool) {
	onpath := map[*types.Named]bool{}
	w.walk(&Node{Type: root, Holder: Root}, onpath, fn)
}

func (w *Walker) child(parent *Node, t types.Type, h Holder, seg string) *Node {
	p := parent.Path
	if seg != "" {
		p = append(append(make([]string, 0, len(parent.Path)+1), parent.Path...), seg)
	}
	return &Node{Type: t, Holder: h, Path: p, Depth: parent.Depth + 1}
}

func (w *Walker) walk(n *Node, onpath map[*types.Named]bool, fn func(n *Node) bool) {
	w.Nodes++
	if !fn(n) {
		return
	}
	t := n.Type
	var named *types.Named
	if nt, ok := t.(*types.Named); ok {
		named = nt
	}
	if al, ok := t.(*types.Alias); ok {
		t = types.Unalias(al)
		if nt, ok := t.(*types.Named); ok {
			named = nt
		}
	}
	switch u := t.Underlying().(type) {
	case *types.Pointer:
		w.walk(w.child(n, u.Elem(), PtrElem, ""), onpath, fn)
	case *types.Slice:
		w.walk(w.child(n, u.Elem(), SliceElem, "[]"), onpath, fn)
	case *types.Array:
		w.walk(w.child(n, u.Elem(), SliceElem, "[]"), onpath, fn)
	case *types.Map:
		w.walk(w.child(n, u.Key(), MapKey, "{key}"), onpath, fn)
		w.walk(w.child(n, u.Elem(), MapValue, "{}"), onpath, fn)
	case *types.Struct:
		if named != nil {
			if onpath[named] {
				return
			}
			onpath[named] = true
			defer delete(onpath, named)
		}
		for i := 0; i < u.NumFields(); i++ {
			f := u.Field(i)
			if !f.Exported() && !w.IncludeUnexported {
				continue
			}
			seg := f.Name()
			if named != nil {
				seg = named.Obj().Name() + "." + f.Name()
			}
			c := w.child(n, f.Type(), StructField, seg)
			c.Owner = named
			c.Field = f
			w.walk(c, onpath, fn)
		}
	case *types.Interface:
		if named == nil || named.Obj().Pkg() == nil {
			return
		}
		for _, impl := range w.ImplsOf(named) {
			w.walk(w.child(n, types.NewPointer(impl), IfaceElem, "<"+impl.Obj().Name()+">"), onpath, fn)
		}
	}
}

// NamedStruct returns the named struct type behind t (through one pointer), or nil.
func NamedStruct(t types.Type) *types.Named {
	t = types.Unalias(t)
	if p, ok := t.(*types.Pointer); ok {
		t = types.Unalias(p.Elem())
	}
	if n, ok := t.(*types.Named); ok {
		if _, ok := n.Underlying().(*types.Struct); ok {
			return n
		}
	}
	return nil
}

func IsString(t types.Type) bool {
	b, ok := types.Unalias(t).Underlying().(*types.Basic)
	return ok && b.Kind() == types.String
}

// TypeIs reports whether t (after one pointer) is the named type pkgPathSuffix.name.
func TypeIs(t types.Type, pkgSuffix, name string) bool {
	t = types.Unalias(t)
	if p, ok := t.(*types.Pointer); ok {
		t = types.Unalias(p.Elem())
	}
	n, ok := t.(*types.Named)
	if !ok || n.Obj().Pkg() == nil {
		return false
	}
	return n.Obj().Name() == name && strings.HasSuffix(n.Obj().Pkg().Path(), pkgSuffix)
}
