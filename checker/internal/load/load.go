// Package load type-checks /repo's current working tree with go/packages and builds SSA for it.
// Nothing is cached between runs: every invocation re-parses the tree (optionally through an
// overlay used by the variant self-test).
package load

import (
	"fmt"
	"go/ast"
	"go/token"
	"go/types"
	"os"
	"sort"
	"strings"

	"golang.org/x/tools/go/packages"
	"golang.org/x/tools/go/ssa"
	"golang.org/x/tools/go/ssa/ssautil"
)

const Module = "github.com/temporalio/s2s-proxy"

// MinRepoPackages is the floor on the number of non-test packages of the module (hand-counted on
// the pinned tree: 142 including proto/1_22). A shrunken count fails the run.
const MinRepoPackages = 40

type Program struct {
	RepoDir  string
	Fset     *token.FileSet
	Pkgs     []*packages.Package          // module packages, source-loaded
	ByPath   map[string]*packages.Package // import path -> package
	SSA      *ssa.Program
	SSAPkgs  map[string]*ssa.Package
	Whole    bool // whole-program (dependencies from source too)
	AllFuncs map[*ssa.Function]bool
	All      []*packages.Package // every root package returned by the loader (AnyModule loads)
}

type Options struct {
	RepoDir string
	Overlay map[string][]byte
	Whole   bool     // load dependencies from source as well
	Only    []string // restrict patterns (default ./...)
	NoSSA   bool
	// AnyModule: the patterns name dependency packages; do not require module packages.
	AnyModule bool
}

func env() []string {
	e := os.Environ()
	// go/packages shells out to `go`: make sure it is the toolchain that accepts the module's go line
	const tc = "/opt/veriftools/go1.26.8/bin"
	if _, err := os.Stat(tc + "/go"); err == nil {
		for i, kv := range e {
			if strings.HasPrefix(kv, "PATH=") && !strings.HasPrefix(kv, "PATH="+tc) {
				e[i] = "PATH=" + tc + ":" + strings.TrimPrefix(kv, "PATH=")
			}
		}
	}
	e = append(e, "GOFLAGS=-mod=mod", "GOPROXY=off", "GOSUMDB=off", "GOTOOLCHAIN=local", "GOWORK=off")
	return e
}

func Load(o Options) (*Program, error) {
	if o.RepoDir == "" {
		o.RepoDir = "/repo"
	}
	mode := packages.NeedName | packages.NeedFiles | packages.NeedCompiledGoFiles | packages.NeedImports |
		packages.NeedTypes | packages.NeedTypesSizes | packages.NeedSyntax | packages.NeedTypesInfo | packages.NeedModule
	if o.Whole {
		mode |= packages.NeedDeps
	}
	cfg := &packages.Config{Mode: mode, Dir: o.RepoDir, Tests: false, Env: env(), Overlay: o.Overlay}
	pats := o.Only
	if len(pats) == 0 {
		pats = []string{"./..."}
	}
	pkgs, err := packages.Load(cfg, pats...)
	if err != nil {
		return nil, fmt.Errorf("go/packages: %w", err)
	}
	var errs []string
	packages.Visit(pkgs, nil, func(p *packages.Package) {
		for _, e := range p.Errors {
			errs = append(errs, e.Error())
		}
	})
	if len(errs) > 0 {
		sort.Strings(errs)
		if len(errs) > 10 {
			errs = errs[:10]
		}
		return nil, fmt.Errorf("load/type errors (the tree must compile): %s", strings.Join(errs, "; "))
	}
	p := &Program{RepoDir: o.RepoDir, ByPath: map[string]*packages.Package{}, SSAPkgs: map[string]*ssa.Package{}, Whole: o.Whole}
	for _, pk := range pkgs {
		if strings.HasPrefix(pk.PkgPath, Module) {
			p.Pkgs = append(p.Pkgs, pk)
			p.ByPath[pk.PkgPath] = pk
			p.Fset = pk.Fset
		}
	}
	if len(o.Only) == 0 && len(p.Pkgs) < MinRepoPackages {
		return nil, fmt.Errorf("only %d module packages loaded (floor %d)", len(p.Pkgs), MinRepoPackages)
	}
	p.All = pkgs
	if o.AnyModule {
		if len(pkgs) == 0 {
			return nil, fmt.Errorf("no packages loaded for %v", pats)
		}
		for _, pk := range pkgs {
			p.Fset = pk.Fset
		}
		return p, nil
	}
	if len(p.Pkgs) == 0 {
		return nil, fmt.Errorf("no module packages loaded")
	}
	sort.Slice(p.Pkgs, func(i, j int) bool { return p.Pkgs[i].PkgPath < p.Pkgs[j].PkgPath })
	if o.NoSSA {
		return p, nil
	}
	var prog *ssa.Program
	if o.Whole {
		var spkgs []*ssa.Package
		prog, spkgs = ssautil.AllPackages(pkgs, ssa.InstantiateGenerics)
		_ = spkgs
		prog.Build()
	} else {
		var spkgs []*ssa.Package
		prog, spkgs = ssautil.Packages(pkgs, ssa.InstantiateGenerics)
		for _, sp := range spkgs {
			if sp != nil {
				sp.Build()
			}
		}
	}
	p.SSA = prog
	for _, sp := range prog.AllPackages() {
		p.SSAPkgs[sp.Pkg.Path()] = sp
	}
	p.AllFuncs = ssautil.AllFunctions(prog)
	return p, nil
}

// Pkg returns the module package with the given path relative to the module root ("proxy").
func (p *Program) Pkg(rel string) (*packages.Package, error) {
	path := Module
	if rel != "" {
		path += "/" + rel
	}
	pk := p.ByPath[path]
	if pk == nil {
		return nil, fmt.Errorf("anchor: package %s not found", path)
	}
	return pk, nil
}

func (p *Program) SSAPkg(rel string) (*ssa.Package, error) {
	path := Module
	if rel != "" {
		path += "/" + rel
	}
	sp := p.SSAPkgs[path]
	if sp == nil {
		return nil, fmt.Errorf("anchor: ssa package %s not found", path)
	}
	return sp, nil
}

// Func resolves "pkgrel.Name" or "pkgrel.(*T).Name" / "pkgrel.(T).Name" to its SSA function.
func (p *Program) Func(rel, recv, name string) (*ssa.Function, error) {
	sp, err := p.SSAPkg(rel)
	if err != nil {
		return nil, err
	}
	if recv == "" {
		f := sp.Func(name)
		if f == nil {
			return nil, fmt.Errorf("anchor: function %s.%s not found", rel, name)
		}
		return f, nil
	}
	ptr := strings.HasPrefix(recv, "*")
	tname := strings.TrimPrefix(recv, "*")
	obj := sp.Pkg.Scope().Lookup(tname)
	tn, ok := obj.(*types.TypeName)
	if !ok {
		return nil, fmt.Errorf("anchor: type %s.%s not found", rel, tname)
	}
	var t types.Type = tn.Type()
	if ptr {
		t = types.NewPointer(t)
	}
	ms := p.SSA.MethodSets.MethodSet(t)
	sel := ms.Lookup(sp.Pkg, name)
	if sel == nil {
		return nil, fmt.Errorf("anchor: method %s.(%s).%s not found", rel, recv, name)
	}
	f := p.SSA.MethodValue(sel)
	if f == nil {
		return nil, fmt.Errorf("anchor: method %s.(%s).%s has no SSA body", rel, recv, name)
	}
	// For generic receivers, MethodValue returns nil; use the declared function object instead.
	return f, nil
}

// FuncByObj finds the SSA function of a declared (possibly generic) function or method object.
func (p *Program) FuncByObj(obj *types.Func) *ssa.Function {
	return p.SSA.FuncValue(obj)
}

// FuncDecl returns the AST declaration of a function or method in a module package.
func (p *Program) FuncDecl(rel, recv, name string) (*ast.FuncDecl, *packages.Package, error) {
	pk, err := p.Pkg(rel)
	if err != nil {
		return nil, nil, err
	}
	want := strings.TrimPrefix(recv, "*")
	for _, f := range pk.Syntax {
		for _, d := range f.Decls {
			fd, ok := d.(*ast.FuncDecl)
			if !ok || fd.Name.Name != name {
				continue
			}
			if recv == "" {
				if fd.Recv == nil {
					return fd, pk, nil
				}
				continue
			}
			if fd.Recv == nil || len(fd.Recv.List) == 0 {
				continue
			}
			if recvTypeName(fd.Recv.List[0].Type) == want {
				return fd, pk, nil
			}
		}
	}
	return nil, nil, fmt.Errorf("anchor: declaration %s.(%s).%s not found", rel, recv, name)
}

func recvTypeName(e ast.Expr) string {
	switch x := e.(type) {
	case *ast.StarExpr:
		return recvTypeName(x.X)
	case *ast.Ident:
		return x.Name
	case *ast.IndexExpr:
		return recvTypeName(x.X)
	case *ast.IndexListExpr:
		return recvTypeName(x.X)
	case *ast.ParenExpr:
		return recvTypeName(x.X)
	}
	return ""
}

// Pos renders a position relative to the repository root.
func (p *Program) Pos(pos token.Pos) string {
	if !pos.IsValid() || p.Fset == nil {
		return ""
	}
	ps := p.Fset.Position(pos)
	f := strings.TrimPrefix(ps.Filename, p.RepoDir+"/")
	return fmt.Sprintf("%s:%d", f, ps.Line)
}

// RepoFuncs lists all SSA functions (including anonymous ones) whose package belongs to the module
// and is not under proto/1_22 (generated legacy types).
func (p *Program) RepoFuncs() []*ssa.Function {
	var out []*ssa.Function
	for f := range p.AllFuncs {
		pk := f.Package()
		if pk == nil && f.Origin() != nil {
			pk = f.Origin().Package()
		}
		if pk == nil {
			continue
		}
		path := pk.Pkg.Path()
		if !strings.HasPrefix(path, Module) || strings.Contains(path, "/proto/1_22/") {
			continue
		}
		if f.Blocks == nil {
			continue
		}
		out = append(out, f)
	}
	sort.Slice(out, func(i, j int) bool { return out[i].String() < out[j].String() })
	return out
}

// LoadTypesOnly loads packages (with all dependencies) from export data, types only. Used by the
// type-graph rules for the API modules; type identity is separate from the source load.
func LoadTypesOnly(repoDir string, overlay map[string][]byte, pats ...string) (map[string]*types.Package, error) {
	if repoDir == "" {
		repoDir = "/repo"
	}
	cfg := &packages.Config{Mode: packages.NeedName | packages.NeedTypes | packages.NeedImports | packages.NeedDeps, Dir: repoDir, Env: env(), Overlay: overlay}
	pkgs, err := packages.Load(cfg, pats...)
	if err != nil {
		return nil, err
	}
	var errs []string
	out := map[string]*types.Package{}
	packages.Visit(pkgs, nil, func(p *packages.Package) {
		for _, e := range p.Errors {
			errs = append(errs, e.Error())
		}
		if p.Types != nil {
			out[p.PkgPath] = p.Types
		}
	})
	if len(errs) > 0 {
		return nil, fmt.Errorf("type load errors: %s", strings.Join(errs, "; "))
	}
	if len(out) == 0 {
		return nil, fmt.Errorf("no packages loaded for %v", pats)
	}
	return out, nil
}
