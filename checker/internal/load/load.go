// Package load type-checks /repo's current working tree with go/packages and builds SSA for it.
// Nothing is cached between runs: every invocation re-parses the tree (optionally through an
// overlay used by the variant self-test).
package load

import (
	"fmt"
	"go/ast"
	"go/parser"
	"go/token"
	"go/types"
	"os"
	"path/filepath"
	"sort"
	"strings"

	"golang.org/x/tools/go/packages"
	"golang.org/x/tools/go/ssa"
	"golang.org/x/tools/go/ssa/ssautil"
)

const Module = "github.com/temporalio/s2s-proxy"

// MinRepoPackages is the floor on the number of non-test packages of the module (hand-counted on
// the pinned tree: 142 including proto/1_22). A shrunken count fails the run.
const MinRepoPackages = 40

type Program struct {
	RepoDir  string
	Fset     *token.FileSet
	Pkgs     []*packages.Package          // module packages, source-loaded
	ByPath   map[string]*packages.Package // import path -> package
	SSA      *ssa.Program
	SSAPkgs  map[string]*ssa.Package
	Whole    bool // whole-program (dependencies from source too)
	AllFuncs map[*ssa.Function]bool
	All      []*packages.Package // every root package returned by the loader (AnyModule loads)
}

type Options struct {
	RepoDir string
	Overlay map[string][]byte
	Whole   bool     // load dependencies from source as well
	Only    []string // restrict patterns (default ./...)
	NoSSA   bool
	// AnyModule: the patterns name dependency packages; do not require module packages.
	AnyModule bool
}

func env() []string {
	e := os.Environ()
	// go/packages shells out to `go`: make sure it is the toolchain that accepts the module's go line
	const tc = "/opt/veriftools/go1.26.8/bin"
	if _, err := os.Stat(tc + "/go"); err == nil {
		for i, kv := range e {
			if strings.HasPrefix(kv, "PATH=") && !strings.HasPrefix(kv, "PATH="+tc) {
				e[i] = "PATH=" + tc + ":" + strings.TrimPrefix(kv, "PATH=")
			}
		}
	}
	e = append(e, "GOFLAGS=-mod=mod", "GOPROXY=off", "GOSUMDB=off", "GOTOOLCHAIN=local", "GOWORK=off")
	return e
}

func Load(o Options) (*Program, error) {
	if o.RepoDir == "" {
		o.RepoDir = "/repo"
	}
	mode := packages.NeedName | packages.NeedFiles | packages.NeedCompiledGoFiles | packages.NeedImports |
		packages.NeedTypes | packages.NeedTypesSizes | packages.NeedSyntax | packages.NeedTypesInfo | packages.NeedModule
	if o.Whole {
		mode |= packages.NeedDeps
	}
	if !o.AnyModule {
		o.Overlay = inlineSingleUseConditions(o.RepoDir, o.Overlay)
	}
	cfg := &packages.Config{Mode: mode, Dir: o.RepoDir, Tests: false, Env: env(), Overlay: o.Overlay}
	pats := o.Only
	if len(pats) == 0 {
		pats = []string{"./..."}
	}
	pkgs, err := packages.Load(cfg, pats...)
	if err != nil {
		return nil, fmt.Errorf("go/packages: %w", err)
	}
	var errs []string
	packages.Visit(pkgs, nil, func(p *packages.Package) {
		for _, e := range p.Errors {
			errs = append(errs, e.Error())
		}
	})
	if len(errs) > 0 {
		sort.Strings(errs)
		if len(errs) > 10 {
			errs = errs[:10]
		}
		return nil, fmt.Errorf("load/type errors (the tree must compile): %s", strings.Join(errs, "; "))
	}
	p := &Program{RepoDir: o.RepoDir, ByPath: map[string]*packages.Package{}, SSAPkgs: map[string]*ssa.Package{}, Whole: o.Whole}
	for _, pk := range pkgs {
		if strings.HasPrefix(pk.PkgPath, Module) {
			p.Pkgs = append(p.Pkgs, pk)
			p.ByPath[pk.PkgPath] = pk
			p.Fset = pk.Fset
		}
	}
	if len(o.Only) == 0 && len(p.Pkgs) < MinRepoPackages {
		return nil, fmt.Errorf("only %d module packages loaded (floor %d)", len(p.Pkgs), MinRepoPackages)
	}
	p.All = pkgs
	if o.AnyModule {
		if len(pkgs) == 0 {
			return nil, fmt.Errorf("no packages loaded for %v", pats)
		}
		for _, pk := range pkgs {
			p.Fset = pk.Fset
		}
		return p, nil
	}
	if len(p.Pkgs) == 0 {
		return nil, fmt.Errorf("no module packages loaded")
	}
	sort.Slice(p.Pkgs, func(i, j int) bool { return p.Pkgs[i].PkgPath < p.Pkgs[j].PkgPath })
	if o.NoSSA {
		return p, nil
	}
	var prog *ssa.Program
	if o.Whole {
		var spkgs []*ssa.Package
		prog, spkgs = ssautil.AllPackages(pkgs, ssa.InstantiateGenerics)
		_ = spkgs
		prog.Build()
	} else {
		var spkgs []*ssa.Package
		prog, spkgs = ssautil.Packages(pkgs, ssa.InstantiateGenerics)
		for _, sp := range spkgs {
			if sp != nil {
				sp.Build()
			}
		}
	}
	p.SSA = prog
	for _, sp := range prog.AllPackages() {
		p.SSAPkgs[sp.Pkg.Path()] = sp
	}
	p.AllFuncs = ssautil.AllFunctions(prog)
	for f := range p.AllFuncs {
		if pk := f.Package(); pk != nil && strings.HasPrefix(pk.Pkg.Path(), Module) {
			canonicalizeComparisons(f)
		}
	}
	return p, nil
}

// canonicalizeComparisons puts every comparison of a module function into one operand order, so that the rules
// read `x == 0`, `err != nil`, `b.size < len(b.entries)` whichever way round the source has them (`0 == x`,
// `nil != err`, `len(b.entries) > b.size` denote the same test). Operands are ranked constant > builtin len/cap
// call > other call > field load > anything else; the higher-ranked operand goes to the right, the operator is
// mirrored. Operands of equal rank are left as written. go/ssa values are rewritten in place; both operands keep
// referring to the instruction, so referrer lists stay valid.
func canonicalizeComparisons(f *ssa.Function) {
	rank := func(v ssa.Value) int {
		for {
			switch x := v.(type) {
			case *ssa.Convert:
				v = x.X
				continue
			case *ssa.ChangeType:
				v = x.X
				continue
			}
			break
		}
		switch x := v.(type) {
		case *ssa.Const:
			return 4
		case *ssa.Call:
			if _, ok := x.Call.Value.(*ssa.Builtin); ok {
				return 3
			}
			return 2
		case *ssa.UnOp:
			if x.Op == token.MUL {
				if _, ok := x.X.(*ssa.FieldAddr); ok {
					return 1
				}
				if _, ok := x.X.(*ssa.Global); ok {
					return 2
				}
			}
		case *ssa.Field:
			return 1
		case *ssa.Phi:
			// a loop counter (a phi one of whose edges is itself plus a constant) stays on the left: i < n
			for _, e := range x.Edges {
				if bo, ok := e.(*ssa.BinOp); ok && bo.Op == token.ADD && bo.X == ssa.Value(x) {
					if _, isC := bo.Y.(*ssa.Const); isC {
						return -1
					}
				}
			}
		}
		return 0
	}
	mirror := map[token.Token]token.Token{token.EQL: token.EQL, token.NEQ: token.NEQ, token.LSS: token.GTR, token.GTR: token.LSS, token.LEQ: token.GEQ, token.GEQ: token.LEQ}
	for _, b := range f.Blocks {
		for _, ins := range b.Instrs {
			bo, ok := ins.(*ssa.BinOp)
			if !ok {
				continue
			}
			m, isCmp := mirror[bo.Op]
			if !isCmp {
				continue
			}
			if rank(bo.X) > rank(bo.Y) {
				bo.X, bo.Y = bo.Y, bo.X
				bo.Op = m
			}
		}
	}
}

// Pkg returns the module package with the given path relative to the module root ("proxy").
func (p *Program) Pkg(rel string) (*packages.Package, error) {
	path := Module
	if rel != "" {
		path += "/" + rel
	}
	pk := p.ByPath[path]
	if pk == nil {
		return nil, fmt.Errorf("anchor: package %s not found", path)
	}
	return pk, nil
}

func (p *Program) SSAPkg(rel string) (*ssa.Package, error) {
	path := Module
	if rel != "" {
		path += "/" + rel
	}
	sp := p.SSAPkgs[path]
	if sp == nil {
		return nil, fmt.Errorf("anchor: ssa package %s not found", path)
	}
	return sp, nil
}

// Func resolves "pkgrel.Name" or "pkgrel.(*T).Name" / "pkgrel.(T).Name" to its SSA function.
func (p *Program) Func(rel, recv, name string) (*ssa.Function, error) {
	sp, err := p.SSAPkg(rel)
	if err != nil {
		return nil, err
	}
	if recv == "" {
		f := sp.Func(name)
		if f == nil {
			return nil, fmt.Errorf("anchor: function %s.%s not found", rel, name)
		}
		return f, nil
	}
	ptr := strings.HasPrefix(recv, "*")
	tname := strings.TrimPrefix(recv, "*")
	obj := sp.Pkg.Scope().Lookup(tname)
	tn, ok := obj.(*types.TypeName)
	if !ok {
		return nil, fmt.Errorf("anchor: type %s.%s not found", rel, tname)
	}
	var t types.Type = tn.Type()
	if ptr {
		t = types.NewPointer(t)
	}
	ms := p.SSA.MethodSets.MethodSet(t)
	sel := ms.Lookup(sp.Pkg, name)
	if sel == nil {
		return nil, fmt.Errorf("anchor: method %s.(%s).%s not found", rel, recv, name)
	}
	f := p.SSA.MethodValue(sel)
	if f == nil {
		return nil, fmt.Errorf("anchor: method %s.(%s).%s has no SSA body", rel, recv, name)
	}
	// For generic receivers, MethodValue returns nil; use the declared function object instead.
	return f, nil
}

// FuncByObj finds the SSA function of a declared (possibly generic) function or method object.
func (p *Program) FuncByObj(obj *types.Func) *ssa.Function {
	return p.SSA.FuncValue(obj)
}

// FuncDecl returns the AST declaration of a function or method in a module package.
func (p *Program) FuncDecl(rel, recv, name string) (*ast.FuncDecl, *packages.Package, error) {
	pk, err := p.Pkg(rel)
	if err != nil {
		return nil, nil, err
	}
	want := strings.TrimPrefix(recv, "*")
	for _, f := range pk.Syntax {
		for _, d := range f.Decls {
			fd, ok := d.(*ast.FuncDecl)
			if !ok || fd.Name.Name != name {
				continue
			}
			if recv == "" {
				if fd.Recv == nil {
					return fd, pk, nil
				}
				continue
			}
			if fd.Recv == nil || len(fd.Recv.List) == 0 {
				continue
			}
			if recvTypeName(fd.Recv.List[0].Type) == want {
				return fd, pk, nil
			}
		}
	}
	return nil, nil, fmt.Errorf("anchor: declaration %s.(%s).%s not found", rel, recv, name)
}

func recvTypeName(e ast.Expr) string {
	switch x := e.(type) {
	case *ast.StarExpr:
		return recvTypeName(x.X)
	case *ast.Ident:
		return x.Name
	case *ast.IndexExpr:
		return recvTypeName(x.X)
	case *ast.IndexListExpr:
		return recvTypeName(x.X)
	case *ast.ParenExpr:
		return recvTypeName(x.X)
	}
	return ""
}

// Pos renders a position relative to the repository root.
func (p *Program) Pos(pos token.Pos) string {
	if !pos.IsValid() || p.Fset == nil {
		return ""
	}
	ps := p.Fset.Position(pos)
	f := strings.TrimPrefix(ps.Filename, p.RepoDir+"/")
	return fmt.Sprintf("%s:%d", f, ps.Line)
}

// RepoFuncs lists all SSA functions (including anonymous ones) whose package belongs to the module
// and is not under proto/1_22 (generated legacy types).
func (p *Program) RepoFuncs() []*ssa.Function {
	var out []*ssa.Function
	for f := range p.AllFuncs {
		pk := f.Package()
		if pk == nil && f.Origin() != nil {
			pk = f.Origin().Package()
		}
		if pk == nil {
			continue
		}
		path := pk.Pkg.Path()
		if !strings.HasPrefix(path, Module) || strings.Contains(path, "/proto/1_22/") {
			continue
		}
		if f.Blocks == nil {
			continue
		}
		out = append(out, f)
	}
	sort.Slice(out, func(i, j int) bool { return out[i].String() < out[j].String() })
	return out
}

// LoadTypesOnly loads packages (with all dependencies) from export data, types only. Used by the
// type-graph rules for the API modules; type identity is separate from the source load.
func LoadTypesOnly(repoDir string, overlay map[string][]byte, pats ...string) (map[string]*types.Package, error) {
	if repoDir == "" {
		repoDir = "/repo"
	}
	cfg := &packages.Config{Mode: packages.NeedName | packages.NeedTypes | packages.NeedImports | packages.NeedDeps, Dir: repoDir, Env: env(), Overlay: overlay}
	pkgs, err := packages.Load(cfg, pats...)
	if err != nil {
		return nil, err
	}
	var errs []string
	out := map[string]*types.Package{}
	packages.Visit(pkgs, nil, func(p *packages.Package) {
		for _, e := range p.Errors {
			errs = append(errs, e.Error())
		}
		if p.Types != nil {
			out[p.PkgPath] = p.Types
		}
	})
	if len(errs) > 0 {
		return nil, fmt.Errorf("type load errors: %s", strings.Join(errs, "; "))
	}
	if len(out) == 0 {
		return nil, fmt.Errorf("no packages loaded for %v", pats)
	}
	return out, nil
}

// inlineSingleUseConditions (and, in the same pass, the reading of a plain `func() { .. }()` statement as a block) is a
// behaviour-preserving desugaring applied to the module's own source before it is
// type-checked: a boolean that is declared immediately before an `if`, is that if's whole condition and is named
// nowhere else in the function
//
//	cnd := a != nil && strings.HasPrefix(m, p)
//	if cnd {
//
// is read as `if a != nil && strings.HasPrefix(m, p) {`. Both forms evaluate the same expression at the same point;
// go/ssa gives the second one the branch structure (one test per edge) that the rules read, the first one a
// boolean phi. Line numbers are preserved (the expression keeps its own line breaks). The rewritten text exists
// only in the go/packages overlay of this run.
func inlineSingleUseConditions(repoDir string, overlay map[string][]byte) map[string][]byte {
	out := map[string][]byte{}
	for k, v := range overlay {
		out[k] = v
	}
	dirs := []string{"proxy", "interceptor", "transport", "encryption", "auth", "config", "common", "collect", "proto/compat"}
	var files []string
	for _, d := range dirs {
		_ = filepath.WalkDir(filepath.Join(repoDir, d), func(path string, de os.DirEntry, err error) error {
			if err != nil {
				return nil
			}
			if de.IsDir() {
				if de.Name() == "test" || de.Name() == "mocks" {
					return filepath.SkipDir
				}
				return nil
			}
			if strings.HasSuffix(path, ".go") && !strings.HasSuffix(path, "_test.go") && !strings.HasSuffix(path, "_gen.go") {
				files = append(files, path)
			}
			return nil
		})
	}
	for _, path := range files {
		src, ok := out[path]
		if !ok {
			b, err := os.ReadFile(path)
			if err != nil {
				continue
			}
			src = b
		}
		if !strings.Contains(string(src), ":=") && !strings.Contains(string(src), "}()") {
			continue
		}
		fset := token.NewFileSet()
		f, err := parser.ParseFile(fset, path, src, parser.ParseComments)
		if err != nil {
			continue
		}
		type edit struct {
			from, to int
			text     string
		}
		var edits []edit
		off := func(p token.Pos) int { return fset.Position(p).Offset }
		for _, d := range f.Decls {
			fd, isFn := d.(*ast.FuncDecl)
			if !isFn || fd.Body == nil {
				continue
			}
			// how often each identifier name occurs in the function
			count := map[string]int{}
			ast.Inspect(fd.Body, func(n ast.Node) bool {
				if id, ok := n.(*ast.Ident); ok {
					count[id.Name]++
				}
				return true
			})
			// `func() { stmts }()` as a statement, with nothing in it that depends on being a function of its own (no
			// return, no defer, no recover): read as the block `{ stmts }`
			ast.Inspect(fd.Body, func(n ast.Node) bool {
				es, ok := n.(*ast.ExprStmt)
				if !ok {
					return true
				}
				call, ok := es.X.(*ast.CallExpr)
				if !ok || len(call.Args) != 0 {
					return true
				}
				lit, ok := call.Fun.(*ast.FuncLit)
				if !ok || lit.Type.Results != nil || (lit.Type.Params != nil && len(lit.Type.Params.List) > 0) || lit.Type.TypeParams != nil {
					return true
				}
				plain := true
				ast.Inspect(lit.Body, func(m ast.Node) bool {
					switch y := m.(type) {
					case *ast.FuncLit:
						return false
					case *ast.ReturnStmt, *ast.DeferStmt, *ast.LabeledStmt:
						plain = false
					case *ast.BranchStmt:
						if y.Label != nil {
							plain = false
						}
					case *ast.CallExpr:
						if id, isId := y.Fun.(*ast.Ident); isId && id.Name == "recover" {
							plain = false
						}
					}
					return plain
				})
				if !plain {
					return true
				}
				edits = append(edits, edit{off(call.Fun.Pos()), off(lit.Body.Lbrace), ""})
				edits = append(edits, edit{off(lit.Body.Rbrace) + 1, off(call.End()), ""})
				return true
			})
			ast.Inspect(fd.Body, func(n ast.Node) bool {
				blk, ok := n.(*ast.BlockStmt)
				if !ok {
					return true
				}
				for i := 0; i+1 < len(blk.List); i++ {
					as, ok := blk.List[i].(*ast.AssignStmt)
					if !ok || as.Tok != token.DEFINE || len(as.Lhs) != 1 || len(as.Rhs) != 1 {
						continue
					}
					id, ok := as.Lhs[0].(*ast.Ident)
					if !ok || id.Name == "_" || count[id.Name] != 2 {
						continue
					}
					iff, ok := blk.List[i+1].(*ast.IfStmt)
					if !ok || iff.Init != nil {
						continue
					}
					cid, ok := iff.Cond.(*ast.Ident)
					if !ok || cid.Name != id.Name {
						continue
					}
					switch as.Rhs[0].(type) {
					case *ast.BinaryExpr, *ast.UnaryExpr, *ast.ParenExpr, *ast.CallExpr:
					default:
						continue
					}
					// no comment between the two statements that the edit would swallow
					rhs := string(src[off(as.Rhs[0].Pos()):off(as.Rhs[0].End())])
					edits = append(edits, edit{off(as.Pos()), off(as.End()), ""})
					edits = append(edits, edit{off(cid.Pos()), off(cid.End()), rhs})
				}
				return true
			})
		}
		if len(edits) == 0 {
			continue
		}
		sort.Slice(edits, func(i, j int) bool { return edits[i].from > edits[j].from })
		b := append([]byte{}, src...)
		for _, e := range edits {
			b = append(b[:e.from], append([]byte(e.text), b[e.to:]...)...)
		}
		out[path] = b
	}
	return out
}
