// s2scheck decides the s2s-proxy properties C01..C20 by static analysis of /repo's current tree.
//
//	s2scheck -prop C12 -tier quick|thorough [-repo /repo] [-verif /verif] [-overlay file=replacement ...]
//	s2scheck -explain /verif/evidence/replay/C12-1.json
package main

import (
	"encoding/json"
	"flag"
	"fmt"
	"os"
	"runtime/debug"
	"sort"
	"strconv"
	"strings"
	"time"

	"s2scheck/internal/load"
	"s2scheck/internal/report"
	"s2scheck/internal/rules"
)

type overlayFlag map[string]string

func (o overlayFlag) String() string { return "" }
func (o overlayFlag) Set(s string) error {
	i := strings.Index(s, "=")
	if i < 0 {
		return fmt.Errorf("overlay must be file=replacementfile")
	}
	o[s[:i]] = s[i+1:]
	return nil
}

func main() {
	// go/packages resolves `go` through this process's PATH: prefer the toolchain that accepts the
	// module's go line, and pin the offline environment.
	if _, err := os.Stat("/opt/veriftools/go1.26.8/bin/go"); err == nil && !strings.HasPrefix(os.Getenv("PATH"), "/opt/veriftools/go1.26.8/bin") {
		os.Setenv("PATH", "/opt/veriftools/go1.26.8/bin:"+os.Getenv("PATH"))
	}
	for k, v := range map[string]string{"GOTOOLCHAIN": "local", "GOFLAGS": "-mod=mod", "GOPROXY": "off", "GOSUMDB": "off", "GOWORK": "off"} {
		os.Setenv(k, v)
	}
	prop := flag.String("prop", "", "property id (C01..C20)")
	tier := flag.String("tier", "quick", "quick or thorough")
	repo := flag.String("repo", "/repo", "repository root")
	verif := flag.String("verif", "/verif", "verif root (evidence, known findings)")
	explain := flag.String("explain", "", "replay file to re-decide and print")
	noEvidence := flag.Bool("variant", false, "variant mode: print obligations that are not holds as JSON on stdout, write nothing")
	list := flag.Bool("list", false, "list properties with rules")
	props := flag.String("props", "", "with -variant: comma-separated property ids decided on one load; prints {id: [obligations that are not holds]}")
	ov := overlayFlag{}
	flag.Var(ov, "overlay", "file=replacement (may repeat): analyse with file's content replaced")
	flag.Parse()

	if *list {
		var ids []string
		for id := range rules.Registry {
			ids = append(ids, id)
		}
		sort.Strings(ids)
		fmt.Println(strings.Join(ids, " "))
		return
	}
	var replay map[string]any
	if *explain != "" {
		b, err := os.ReadFile(*explain)
		if err != nil {
			fmt.Println("cannot read replay file:", err)
			os.Exit(2)
		}
		if err := json.Unmarshal(b, &replay); err != nil {
			fmt.Println("bad replay file:", err)
			os.Exit(2)
		}
		*prop, _ = replay["property"].(string)
		if t, ok := replay["tier"].(string); ok && t != "" {
			*tier = t
		}
	}
	if t := os.Getenv("VERIF_TIER"); t != "" && *explain == "" && !isFlagSet("tier") {
		*tier = t
	}
	if *props != "" {
		overlay := map[string][]byte{}
		for f, r := range ov {
			b, err := os.ReadFile(r)
			if err != nil {
				fmt.Println("overlay:", err)
				os.Exit(2)
			}
			overlay[f] = b
		}
		os.Exit(runMany(strings.Split(*props, ","), *repo, overlay))
	}
	rule, ok := rules.Registry[*prop]
	if !ok {
		fmt.Printf("unknown property %q\n", *prop)
		os.Exit(2)
	}
	seed := 0
	if s := os.Getenv("VERIF_SEED"); s != "" {
		seed, _ = strconv.Atoi(s)
	}
	start := time.Now()
	overlay := map[string][]byte{}
	for f, r := range ov {
		b, err := os.ReadFile(r)
		if err != nil {
			fmt.Println("overlay:", err)
			os.Exit(2)
		}
		overlay[f] = b
	}
	code := run(*prop, *tier, *repo, *verif, overlay, rule, seed, start, *noEvidence, replay)
	os.Exit(code)
}

func isFlagSet(name string) bool {
	set := false
	flag.Visit(func(f *flag.Flag) {
		if f.Name == name {
			set = true
		}
	})
	return set
}

func run(prop, tier, repo, verif string, overlay map[string][]byte, rule rules.RuleFn, seed int, start time.Time, variantMode bool, replay map[string]any) (code int) {
	var res *report.Result
	fail := func(what string) *report.Result {
		r := &report.Result{Property: prop, Level: "other", RuleDoc: map[string]string{}, Explanation: "the analysis could not be completed; this fails the check"}
		r.Undec("engine", "analysis", "", what)
		return r
	}
	func() {
		defer func() {
			if p := recover(); p != nil {
				res = fail(fmt.Sprintf("checker panic: %v\n%s", p, debug.Stack()))
			}
		}()
		whole := tier == "thorough" && rules.NeedsWhole[prop] && !variantMode
		prog, err := load.Load(load.Options{RepoDir: repo, Overlay: overlay, Whole: whole})
		if err != nil {
			res = fail(err.Error())
			return
		}
		ctx := &rules.Ctx{Prog: prog, Tier: tier, RepoDir: repo, Overlay: overlay}
		r, err := rule(ctx)
		if err != nil {
			res = fail(err.Error())
			if r != nil {
				r.Undec("engine", "analysis", "", err.Error())
				res = r
			}
			return
		}
		if r.Analysed == nil {
			r.Analysed = map[string]any{}
		}
		r.Analysed["module_packages"] = len(prog.Pkgs)
		r.Analysed["ssa_functions"] = len(prog.AllFuncs)
		r.Analysed["mode"] = map[bool]string{true: "whole-program (dependencies from source)", false: "repo packages from source, dependencies from export data"}[whole]
		res = r
	}()
	if variantMode {
		var bad []report.Obligation
		for _, o := range res.Obligations {
			if o.Status != report.Holds {
				bad = append(bad, o)
			}
		}
		b, _ := json.Marshal(bad)
		fmt.Println(string(b))
		return 0
	}
	if replay != nil {
		wantRule, _ := replay["rule"].(string)
		wantC, _ := replay["construct"].(string)
		found := false
		for _, o := range res.Obligations {
			if o.Rule == wantRule && o.Construct == wantC {
				found = true
				fmt.Printf("%s %s %s\n  status: %s\n  at: %s\n  rule: %s\n  detail: %s\n", prop, o.Rule, o.Construct, o.Status, o.Pos, res.RuleDoc[o.Rule], o.Detail)
				for _, t := range o.Trace {
					fmt.Println("    ", t)
				}
				if o.Status != report.Holds {
					code = 1
				}
			}
		}
		if !found {
			fmt.Printf("obligation %s %s no longer exists on the current tree\n", wantRule, wantC)
		}
		return code
	}
	known, err := report.LoadKnown(verif + "/known_findings.json")
	if err != nil {
		fmt.Println("known_findings.json unreadable:", err)
		return 2
	}
	var variants any
	if tier == "thorough" {
		variants = rules.RunVariants(prop, repo, verif)
		if vr, ok := variants.(*rules.VariantReport); ok && vr != nil {
			for _, v := range vr.Results {
				if v.Outcome == "false-alarm" {
					res.Undec("selftest", "benign variant "+v.Name, "", "a behaviour-preserving refactoring is reported as a violation ("+v.Fired+"): the rule demands more than the property states")
				}
				if v.Outcome == "missed" {
					res.Undec("selftest", "variant "+v.Name, "", "seeded variant was not reported by the rule it targets ("+v.Expect+"): the checker lost its teeth")
				}
			}
		}
	}
	return report.Finish(res, verif, tier, seed, start, known, variants, false)
}

// runMany decides several properties on one load of the program (exploration aid for tools/mutsweep.py; writes no
// evidence). A load or type error is reported as an "engine" obligation under every property.
func runMany(ids []string, repo string, overlay map[string][]byte) int {
	out := map[string][]report.Obligation{}
	prog, err := load.Load(load.Options{RepoDir: repo, Overlay: overlay})
	for _, id := range ids {
		rule, ok := rules.Registry[id]
		if !ok {
			continue
		}
		if err != nil {
			out[id] = []report.Obligation{{Rule: "engine", Construct: "analysis", Status: report.Undecided, Detail: err.Error()}}
			continue
		}
		func() {
			defer func() {
				if p := recover(); p != nil {
					out[id] = []report.Obligation{{Rule: "engine", Construct: "analysis", Status: report.Undecided, Detail: fmt.Sprint("checker panic: ", p)}}
				}
			}()
			res, rerr := rule(&rules.Ctx{Prog: prog, Tier: "quick", RepoDir: repo, Overlay: overlay})
			bad := []report.Obligation{}
			if rerr != nil {
				bad = append(bad, report.Obligation{Rule: "engine", Construct: "analysis", Status: report.Undecided, Detail: rerr.Error()})
			}
			if res != nil {
				for _, o := range res.Obligations {
					if o.Status != report.Holds {
						bad = append(bad, o)
					}
				}
			}
			out[id] = bad
		}()
	}
	b, _ := json.Marshal(out)
	fmt.Println(string(b))
	return 0
}
