// mutgen lists small source mutations of Go files (comparison / boolean operators, dropped negations, deleted
// call / defer / assignment statements, off-by-one constants) as JSON. It is an exploration aid for the checks'
// blind spots (tools/mutsweep.py): it does not decide anything.
//
//	mutgen file.go [file.go ...]
package main

import (
	"encoding/json"
	"fmt"
	"go/ast"
	"go/parser"
	"go/token"
	"os"
	"strings"
)

type Mut struct {
	File string `json:"file"`
	Func string `json:"func"`
	Line int    `json:"line"`
	Kind string `json:"kind"`
	Off  int    `json:"off"`
	End  int    `json:"end"`
	Old  string `json:"old"`
	New  string `json:"new"`
}

var swap = map[token.Token][]string{
	token.LSS:  {"<="},
	token.LEQ:  {"<"},
	token.GTR:  {">="},
	token.GEQ:  {">"},
	token.EQL:  {"!="},
	token.NEQ:  {"=="},
	token.LAND: {"||"},
	token.LOR:  {"&&"},
}

func main() {
	if len(os.Args) > 1 && os.Args[1] == "-benign" {
		benign(os.Args[2:])
		return
	}
	var out []Mut
	for _, path := range os.Args[1:] {
		src, err := os.ReadFile(path)
		if err != nil {
			fmt.Fprintln(os.Stderr, err)
			os.Exit(2)
		}
		fset := token.NewFileSet()
		f, err := parser.ParseFile(fset, path, src, parser.ParseComments)
		if err != nil {
			fmt.Fprintln(os.Stderr, err)
			os.Exit(2)
		}
		off := func(p token.Pos) int { return fset.Position(p).Offset }
		for _, d := range f.Decls {
			fd, ok := d.(*ast.FuncDecl)
			if !ok || fd.Body == nil {
				continue
			}
			name := fd.Name.Name
			if fd.Recv != nil && len(fd.Recv.List) == 1 {
				var b strings.Builder
				ast.Inspect(fd.Recv.List[0].Type, func(n ast.Node) bool {
					if id, ok := n.(*ast.Ident); ok {
						b.WriteString(id.Name)
					}
					return true
				})
				name = b.String() + "." + name
			}
			add := func(kind string, from, to token.Pos, repl string) {
				out = append(out, Mut{File: path, Func: name, Line: fset.Position(from).Line, Kind: kind, Off: off(from), End: off(to), Old: string(src[off(from):off(to)]), New: repl})
			}
			isLogCall := func(e ast.Expr) bool {
				call, ok := e.(*ast.CallExpr)
				if !ok {
					return false
				}
				s := string(src[off(call.Fun.Pos()):off(call.Fun.End())])
				for _, p := range []string{"logger.", "Logger.", ".Debug", ".Info", ".Warn", ".Error", "fmt.Print", "log."} {
					if strings.Contains(s, p) {
						return true
					}
				}
				return false
			}
			ast.Inspect(fd.Body, func(n ast.Node) bool {
				switch x := n.(type) {
				case *ast.CallExpr:
					if isLogCall(x) {
						return false // nothing below a logging call matters
					}
				case *ast.BinaryExpr:
					if reps, ok := swap[x.Op]; ok {
						for _, r := range reps {
							add("op "+x.Op.String()+"->"+r, x.OpPos, x.OpPos+token.Pos(len(x.Op.String())), r)
						}
					}
					if (x.Op == token.ADD || x.Op == token.SUB) && isOne(x.Y) {
						// x + 1 -> x
						add("drop "+x.Op.String()+"1", x.X.End(), x.Y.End(), "")
					}
				case *ast.UnaryExpr:
					if x.Op == token.NOT {
						add("drop !", x.OpPos, x.OpPos+1, "")
					}
				case *ast.ExprStmt:
					if call, ok := x.X.(*ast.CallExpr); ok && !isLogCall(call) {
						add("delete call", x.Pos(), x.End(), "")
					}
				case *ast.DeferStmt:
					if !isLogCall(x.Call) {
						add("delete defer", x.Pos(), x.End(), "")
						add("defer->call", x.Pos(), x.Call.Pos(), "")
					}
				case *ast.GoStmt:
					add("go->call", x.Pos(), x.Call.Pos(), "")
				case *ast.AssignStmt:
					if x.Tok == token.ASSIGN && len(x.Lhs) == 1 {
						if _, isSel := x.Lhs[0].(*ast.SelectorExpr); isSel {
							add("delete field assignment", x.Pos(), x.End(), "")
						}
						if _, isIdx := x.Lhs[0].(*ast.IndexExpr); isIdx {
							add("delete element assignment", x.Pos(), x.End(), "")
						}
					}
				case *ast.IncDecStmt:
					add("delete inc/dec", x.Pos(), x.End(), "")
				case *ast.BranchStmt:
					if x.Tok == token.CONTINUE || x.Tok == token.BREAK {
						// continue -> nothing is rarely compilable-equivalent; skip
					}
				case *ast.ReturnStmt:
					// `return err` -> `return nil` when the last result is an identifier named err
					if len(x.Results) > 0 {
						if id, ok := x.Results[len(x.Results)-1].(*ast.Ident); ok && (id.Name == "err" || strings.HasSuffix(id.Name, "Err")) {
							add("return err->nil", id.Pos(), id.End(), "nil")
						}
					}
				case *ast.BasicLit:
					_ = x
				}
				return true
			})
		}
	}
	enc := json.NewEncoder(os.Stdout)
	enc.Encode(out)
}

func isOne(e ast.Expr) bool {
	bl, ok := e.(*ast.BasicLit)
	return ok && bl.Kind == token.INT && bl.Value == "1"
}

// benign lists behaviour-preserving rewrites (the mirror image of the mutations above): none of them may make any
// check report anything. Operands are swapped only when at most one of them contains a call; a condition is moved
// into a local only for an `if` without init statement that sits directly in a block.
func benign(paths []string) {
	var out []Mut
	for _, path := range paths {
		src, err := os.ReadFile(path)
		if err != nil {
			fmt.Fprintln(os.Stderr, err)
			os.Exit(2)
		}
		fset := token.NewFileSet()
		f, err := parser.ParseFile(fset, path, src, parser.ParseComments)
		if err != nil {
			fmt.Fprintln(os.Stderr, err)
			os.Exit(2)
		}
		off := func(p token.Pos) int { return fset.Position(p).Offset }
		text := func(n ast.Node) string { return string(src[off(n.Pos()):off(n.End())]) }
		hasCall := func(e ast.Expr) bool {
			found := false
			ast.Inspect(e, func(n ast.Node) bool {
				if c, ok := n.(*ast.CallExpr); ok {
					if id, isId := c.Fun.(*ast.Ident); isId && (id.Name == "len" || id.Name == "cap" || id.Name == "int" || id.Name == "int64" || id.Name == "int32") {
						return true
					}
					found = true
				}
				return true
			})
			return found
		}
		mirror := map[token.Token]string{token.EQL: "==", token.NEQ: "!=", token.LSS: ">", token.GTR: "<", token.LEQ: ">=", token.GEQ: "<="}
		for _, d := range f.Decls {
			fd, ok := d.(*ast.FuncDecl)
			if !ok || fd.Body == nil {
				continue
			}
			name := fd.Name.Name
			if fd.Recv != nil && len(fd.Recv.List) == 1 {
				var b strings.Builder
				ast.Inspect(fd.Recv.List[0].Type, func(n ast.Node) bool {
					if id, ok := n.(*ast.Ident); ok {
						b.WriteString(id.Name)
					}
					return true
				})
				name = b.String() + "." + name
			}
			add := func(kind string, from, to token.Pos, repl string) {
				out = append(out, Mut{File: path, Func: name, Line: fset.Position(from).Line, Kind: kind, Off: off(from), End: off(to), Old: string(src[off(from):off(to)]), New: repl})
			}
			ast.Inspect(fd.Body, func(n ast.Node) bool {
				switch x := n.(type) {
				case *ast.BinaryExpr:
					if m, ok := mirror[x.Op]; ok && !(hasCall(x.X) && hasCall(x.Y)) {
						add("benign: operands swapped", x.Pos(), x.End(), text(x.Y)+" "+m+" "+text(x.X))
					}
				case *ast.IncDecStmt:
					op := "+= 1"
					if x.Tok == token.DEC {
						op = "-= 1"
					}
					add("benign: ++ as += 1", x.Pos(), x.End(), text(x.X)+" "+op)
				case *ast.ExprStmt:
					// x.F(args) as a statement -> func() { x.F(args) }(): the cheapest stand-in for "moved into a helper"
					if call, isCall := x.X.(*ast.CallExpr); isCall {
						t := text(call.Fun)
						if _, isLit := call.Fun.(*ast.FuncLit); !isLit && !strings.Contains(t, "ogger") && !strings.Contains(t, "Debug") && !strings.Contains(t, "Info") && !strings.Contains(t, "Warn") && !strings.Contains(t, "Error") && !strings.Contains(t, "WriteString") && t != "panic" && t != "recover" && !strings.HasSuffix(t, "Lock") && !strings.HasSuffix(t, "Unlock") {
							add("benign: call statement wrapped in a called literal", x.Pos(), x.End(), "func() { "+text(x)+" }()")
						}
					}
				case *ast.DeferStmt:
					// defer x.M() -> defer func() { x.M() }(): only for calls whose arguments are plain names or selectors
					simple := true
					for _, a := range x.Call.Args {
						switch a.(type) {
						case *ast.Ident, *ast.SelectorExpr, *ast.BasicLit:
						default:
							simple = false
						}
					}
					if _, isLit := x.Call.Fun.(*ast.FuncLit); !isLit && simple {
						add("benign: deferred call wrapped in a closure", x.Pos(), x.End(), "defer func() { "+text(x.Call)+" }()")
					}
				case *ast.ForStmt, *ast.RangeStmt:
					var body *ast.BlockStmt
					if fs, isF := x.(*ast.ForStmt); isF {
						body = fs.Body
					} else {
						body = x.(*ast.RangeStmt).Body
					}
					if nb := len(body.List); nb > 0 {
						if iff, isIf := body.List[nb-1].(*ast.IfStmt); isIf && iff.Init == nil && iff.Else == nil && len(iff.Body.List) > 0 {
							inner := string(src[off(iff.Body.Lbrace)+1 : off(iff.Body.Rbrace)])
							add("benign: guard clause with continue", iff.Pos(), iff.End(), "if !("+text(iff.Cond)+") {\ncontinue\n}\n"+inner)
						}
					}
				case *ast.BlockStmt:
					for _, st := range x.List {
						if iff, ok := st.(*ast.IfStmt); ok && iff.Init != nil {
							add("benign: if-init hoisted", iff.Pos(), iff.Body.Lbrace, "{\n"+text(iff.Init)+"\nif "+text(iff.Cond)+" ")
							// the closing brace of the new block goes after the whole statement
							out[len(out)-1].End = off(iff.End())
							out[len(out)-1].Old = string(src[off(iff.Pos()):off(iff.End())])
							out[len(out)-1].New += string(src[off(iff.Body.Lbrace):off(iff.End())]) + "\n}"
						}
					}
					for _, st := range x.List {
						iff, ok := st.(*ast.IfStmt)
						if !ok || iff.Init != nil {
							continue
						}
						line := fset.Position(iff.Pos()).Line
						// condition into a local
						add("benign: condition in a local", iff.Pos(), iff.Body.Lbrace, fmt.Sprintf("cnd%d := %s\n\tif cnd%d ", line, text(iff.Cond), line))
						// a && b without else -> nested ifs
						if be, isB := iff.Cond.(*ast.BinaryExpr); isB && be.Op == token.LAND && iff.Else == nil {
							add("benign: && as nested ifs", iff.Pos(), iff.End(), "if "+text(be.X)+" {\nif "+text(be.Y)+" "+text(iff.Body)+"\n}")
						}
						// if/else inverted
						if els, isBlk := iff.Else.(*ast.BlockStmt); isBlk {
							add("benign: if/else inverted", iff.Pos(), iff.End(), "if !("+text(iff.Cond)+") "+text(els)+" else "+text(iff.Body))
							// else dropped after a body that ends in return / continue / break
							if nb := len(iff.Body.List); nb > 0 {
								leaves := false
								switch l := iff.Body.List[nb-1].(type) {
								case *ast.ReturnStmt:
									leaves = true
								case *ast.BranchStmt:
									leaves = l.Tok == token.CONTINUE || l.Tok == token.BREAK
								}
								if leaves && len(els.List) > 0 {
									inner := string(src[off(els.Lbrace)+1 : off(els.Rbrace)])
									add("benign: else dropped after return", iff.Pos(), iff.End(), "if "+text(iff.Cond)+" "+text(iff.Body)+"\n"+inner)
								}
							}
						}
						// De Morgan on a negated conjunction / disjunction of two operands
						if un, isUn := iff.Cond.(*ast.UnaryExpr); isUn && un.Op == token.NOT {
							if par, isPar := un.X.(*ast.ParenExpr); isPar {
								if be, isB := par.X.(*ast.BinaryExpr); isB && (be.Op == token.LAND || be.Op == token.LOR) {
									op := "||"
									if be.Op == token.LOR {
										op = "&&"
									}
									add("benign: De Morgan", iff.Cond.Pos(), iff.Cond.End(), "!("+text(be.X)+") "+op+" !("+text(be.Y)+")")
								}
							}
						}
						if be, isB := iff.Cond.(*ast.BinaryExpr); isB && (be.Op == token.LAND || be.Op == token.LOR) {
							op := "||"
							if be.Op == token.LOR {
								op = "&&"
							}
							add("benign: De Morgan (negated form)", iff.Cond.Pos(), iff.Cond.End(), "!(!("+text(be.X)+") "+op+" !("+text(be.Y)+"))")
						}
					}
				}
				return true
			})
		}
	}
	if os.Getenv("MUTGEN_RENAMES") == "only" {
		out = renames(paths)
	} else if os.Getenv("MUTGEN_RENAMES") != "" {
		out = append(out, renames(paths)...)
	}
	json.NewEncoder(os.Stdout).Encode(out)
}

// renames lists, per function, the consistent renaming of one receiver, parameter or local variable (every
// occurrence of the name that is not a selector's field or a composite literal's key) - at most four names per
// function, only names declared exactly once in it. A renaming that does not compile is dropped by the sweep.
func renames(paths []string) []Mut {
	var out []Mut
	for _, path := range paths {
		src, err := os.ReadFile(path)
		if err != nil {
			continue
		}
		fset := token.NewFileSet()
		f, err := parser.ParseFile(fset, path, src, parser.ParseComments)
		if err != nil {
			continue
		}
		off := func(p token.Pos) int { return fset.Position(p).Offset }
		for _, d := range f.Decls {
			fd, ok := d.(*ast.FuncDecl)
			if !ok || fd.Body == nil {
				continue
			}
			fname := fd.Name.Name
			decl := map[string]int{}
			note := func(id *ast.Ident) {
				if id != nil && id.Name != "_" {
					decl[id.Name]++
				}
			}
			if fd.Recv != nil {
				for _, fl := range fd.Recv.List {
					for _, n := range fl.Names {
						note(n)
					}
				}
			}
			for _, fl := range fd.Type.Params.List {
				for _, n := range fl.Names {
					note(n)
				}
			}
			ast.Inspect(fd.Body, func(n ast.Node) bool {
				switch x := n.(type) {
				case *ast.AssignStmt:
					if x.Tok == token.DEFINE {
						for _, l := range x.Lhs {
							if id, ok := l.(*ast.Ident); ok {
								note(id)
							}
						}
					}
				case *ast.RangeStmt:
					if x.Tok == token.DEFINE {
						if id, ok := x.Key.(*ast.Ident); ok {
							note(id)
						}
						if id, ok := x.Value.(*ast.Ident); ok {
							note(id)
						}
					}
				case *ast.FuncLit:
					for _, fl := range x.Type.Params.List {
						for _, nm := range fl.Names {
							note(nm)
						}
					}
				}
				return true
			})
			// occurrences that may be renamed: plain identifiers, not selector fields, not struct-literal keys
			skip := map[*ast.Ident]bool{}
			ast.Inspect(fd, func(n ast.Node) bool {
				switch x := n.(type) {
				case *ast.SelectorExpr:
					skip[x.Sel] = true
				case *ast.KeyValueExpr:
					if id, ok := x.Key.(*ast.Ident); ok {
						skip[id] = true
					}
				}
				return true
			})
			n := 0
			var names []string
			for name, c := range decl {
				if c == 1 && name != "err" && name != "ok" && name != "ctx" {
					names = append(names, name)
				}
			}
			sortStrings(names)
			for _, name := range names {
				if n >= 4 {
					break
				}
				var ids []*ast.Ident
				ast.Inspect(fd, func(nd ast.Node) bool {
					if id, ok := nd.(*ast.Ident); ok && id.Name == name && !skip[id] {
						ids = append(ids, id)
					}
					return true
				})
				if len(ids) < 2 {
					continue
				}
				// one mutant = the whole function text with the occurrences replaced
				from, to := off(fd.Pos()), off(fd.End())
				text := []byte{}
				last := from
				for _, id := range ids {
					text = append(text, src[last:off(id.Pos())]...)
					text = append(text, []byte(name+"Rn")...)
					last = off(id.End())
				}
				text = append(text, src[last:to]...)
				out = append(out, Mut{File: path, Func: fname, Line: fset.Position(fd.Pos()).Line, Kind: "benign: local " + name + " renamed", Off: from, End: to, Old: name, New: string(text)})
				n++
			}
		}
	}
	return out
}

func sortStrings(a []string) {
	for i := 1; i < len(a); i++ {
		for j := i; j > 0 && a[j] < a[j-1]; j-- {
			a[j], a[j-1] = a[j-1], a[j]
		}
	}
}
