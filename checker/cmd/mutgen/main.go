// mutgen lists small source mutations of Go files (comparison / boolean operators, dropped negations, deleted
// call / defer / assignment statements, off-by-one constants) as JSON. It is an exploration aid for the checks'
// blind spots (tools/mutsweep.py): it does not decide anything.
//
//	mutgen file.go [file.go ...]
package main

import (
	"encoding/json"
	"fmt"
	"go/ast"
	"go/parser"
	"go/token"
	"os"
	"strings"
)

type Mut struct {
	File string `json:"file"`
	Func string `json:"func"`
	Line int    `json:"line"`
	Kind string `json:"kind"`
	Off  int    `json:"off"`
	End  int    `json:"end"`
	Old  string `json:"old"`
	New  string `json:"new"`
}

var swap = map[token.Token][]string{
	token.LSS:  {"<="},
	token.LEQ:  {"<"},
	token.GTR:  {">="},
	token.GEQ:  {">"},
	token.EQL:  {"!="},
	token.NEQ:  {"=="},
	token.LAND: {"||"},
	token.LOR:  {"&&"},
}

func main() {
	var out []Mut
	for _, path := range os.Args[1:] {
		src, err := os.ReadFile(path)
		if err != nil {
			fmt.Fprintln(os.Stderr, err)
			os.Exit(2)
		}
		fset := token.NewFileSet()
		f, err := parser.ParseFile(fset, path, src, parser.ParseComments)
		if err != nil {
			fmt.Fprintln(os.Stderr, err)
			os.Exit(2)
		}
		off := func(p token.Pos) int { return fset.Position(p).Offset }
		for _, d := range f.Decls {
			fd, ok := d.(*ast.FuncDecl)
			if !ok || fd.Body == nil {
				continue
			}
			name := fd.Name.Name
			if fd.Recv != nil && len(fd.Recv.List) == 1 {
				var b strings.Builder
				ast.Inspect(fd.Recv.List[0].Type, func(n ast.Node) bool {
					if id, ok := n.(*ast.Ident); ok {
						b.WriteString(id.Name)
					}
					return true
				})
				name = b.String() + "." + name
			}
			add := func(kind string, from, to token.Pos, repl string) {
				out = append(out, Mut{File: path, Func: name, Line: fset.Position(from).Line, Kind: kind, Off: off(from), End: off(to), Old: string(src[off(from):off(to)]), New: repl})
			}
			isLogCall := func(e ast.Expr) bool {
				call, ok := e.(*ast.CallExpr)
				if !ok {
					return false
				}
				s := string(src[off(call.Fun.Pos()):off(call.Fun.End())])
				for _, p := range []string{"logger.", "Logger.", ".Debug", ".Info", ".Warn", ".Error", "fmt.Print", "log."} {
					if strings.Contains(s, p) {
						return true
					}
				}
				return false
			}
			ast.Inspect(fd.Body, func(n ast.Node) bool {
				switch x := n.(type) {
				case *ast.CallExpr:
					if isLogCall(x) {
						return false // nothing below a logging call matters
					}
				case *ast.BinaryExpr:
					if reps, ok := swap[x.Op]; ok {
						for _, r := range reps {
							add("op "+x.Op.String()+"->"+r, x.OpPos, x.OpPos+token.Pos(len(x.Op.String())), r)
						}
					}
					if (x.Op == token.ADD || x.Op == token.SUB) && isOne(x.Y) {
						// x + 1 -> x
						add("drop "+x.Op.String()+"1", x.X.End(), x.Y.End(), "")
					}
				case *ast.UnaryExpr:
					if x.Op == token.NOT {
						add("drop !", x.OpPos, x.OpPos+1, "")
					}
				case *ast.ExprStmt:
					if call, ok := x.X.(*ast.CallExpr); ok && !isLogCall(call) {
						add("delete call", x.Pos(), x.End(), "")
					}
				case *ast.DeferStmt:
					if !isLogCall(x.Call) {
						add("delete defer", x.Pos(), x.End(), "")
						add("defer->call", x.Pos(), x.Call.Pos(), "")
					}
				case *ast.GoStmt:
					add("go->call", x.Pos(), x.Call.Pos(), "")
				case *ast.AssignStmt:
					if x.Tok == token.ASSIGN && len(x.Lhs) == 1 {
						if _, isSel := x.Lhs[0].(*ast.SelectorExpr); isSel {
							add("delete field assignment", x.Pos(), x.End(), "")
						}
						if _, isIdx := x.Lhs[0].(*ast.IndexExpr); isIdx {
							add("delete element assignment", x.Pos(), x.End(), "")
						}
					}
				case *ast.IncDecStmt:
					add("delete inc/dec", x.Pos(), x.End(), "")
				case *ast.BranchStmt:
					if x.Tok == token.CONTINUE || x.Tok == token.BREAK {
						// continue -> nothing is rarely compilable-equivalent; skip
					}
				case *ast.ReturnStmt:
					// `return err` -> `return nil` when the last result is an identifier named err
					if len(x.Results) > 0 {
						if id, ok := x.Results[len(x.Results)-1].(*ast.Ident); ok && (id.Name == "err" || strings.HasSuffix(id.Name, "Err")) {
							add("return err->nil", id.Pos(), id.End(), "nil")
						}
					}
				case *ast.BasicLit:
					_ = x
				}
				return true
			})
		}
	}
	enc := json.NewEncoder(os.Stdout)
	enc.Encode(out)
}

func isOne(e ast.Expr) bool {
	bl, ok := e.(*ast.BasicLit)
	return ok && bl.Kind == token.INT && bl.Value == "1"
}
