// nilcheck runs x/tools' nilness analyzer over the given packages (exploration aid).
package main

import (
	"golang.org/x/tools/go/analysis/passes/nilness"
	"golang.org/x/tools/go/analysis/singlechecker"
)

func main() { singlechecker.Main(nilness.Analyzer) }
