#!/bin/bash
# usage: tools/seed_overlay_check.sh <dir-with-patch.diff> <prop>[,<prop>...]
# Runs the checks on the patched sources through an overlay (nothing in /repo is touched): prints every obligation
# that is not a hold. An exploration aid; the authoritative replay is the thorough tier / tools/seed_eval.sh.
set -u
SRC="$1"; PROPS="$2"
T=$(mktemp -d /tmp/seedov.XXXX)
trap 'rm -rf "$T"' EXIT
OV=()
for f in $(grep '^+++ b/' "$SRC/patch.diff" | sed 's|^+++ b/||'); do
  mkdir -p "$T/$(dirname "$f")"; [ -f "/repo/$f" ] && cp "/repo/$f" "$T/$f"
done
(cd "$T" && patch -p1 -s < "$SRC/patch.diff") || { echo "patch failed"; exit 3; }
for f in $(grep '^+++ b/' "$SRC/patch.diff" | sed 's|^+++ b/||'); do OV+=(-overlay "/repo/$f=$T/$f"); done
export PATH=/opt/veriftools/go1.26.8/bin:$PATH GOTOOLCHAIN=local GOFLAGS=-mod=mod GOPROXY=off GOSUMDB=off GOWORK=off
/verif/checker/bin/s2scheck -repo /repo -verif /verif -variant -props "$PROPS" "${OV[@]}" | python3 -c "
import json,sys
d=json.load(sys.stdin)
for k,v in d.items():
    print(k, len(v), 'not holding')
    for o in v[:6]: print('   ', o.get('rule'), o.get('status'), o.get('construct','')[:150], '|', o.get('detail','')[:160])
"
