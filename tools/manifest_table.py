# Table read by gen_manifest.py. One add(...) per claimed property.
NOTES = ("All checks are static: they re-type-check /repo's current working tree on every run and decide obligations "
         "(rule, construct) listed in the evidence. 'other' level = necessary structural conditions of the property; the clause "
         "each check leaves undecided is named in DESIGN.md section 4 and 7. known_findings.json lists repaired defects (fixed:) and recorded ones (known).")

IN_PROGRESS = "static rules for this property are designed in DESIGN.md section 4 but not built yet; not claimed until the check exists and is silent on the unchanged tree"
for _p in ["C01","C02","C03","C04","C05","C06","C07","C08","C09","C10","C11","C13","C14","C15","C16","C17","C18","C19","C20"]:
    NOT_BUILT[_p] = IN_PROGRESS

add("C12", "other", "exhaustive type-graph walk of the API message types vs. the walker's tables read from source; SSA guard classification of walk cuts; dominance of translate-before-forward",
    "Exhaustive over the pinned API's type graph: every struct field that can carry a namespace name or serialized history events below every request/response/stream message of both services is shown to be recognised by the repo's reflective walker (tables read from the current source), no skip-list entry or shortcut type reaches such a field, the visit callbacks cut the walk only in reviewed classes, and the interceptor translates before/after forwarding on every path. Structural completeness, not value-level behaviour of visit.Assign / the serializer.",
    "DESIGN.md section 4 C12")
