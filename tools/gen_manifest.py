#!/usr/bin/env python3
"""Writes /verif/MANIFEST.json from the table below (single source of truth for check metadata)."""
import json, os, subprocess, sys

VERIF = os.path.dirname(os.path.dirname(os.path.abspath(__file__)))

TRUST = ("Trusted: Go type checker, go/ssa, go list; semantics of dependencies named in DESIGN.md section 6 "
         "(crypto/tls, grpc interceptor chaining, visit.Values, Temporal serializer); the reviewed tables inside the checker. "
         "Decides structural necessary conditions visible in the code's shape, not run-time behaviour.")

# id -> (level category, technique, text, design_ref)
CHECKS = {}

def add(pid, cat, technique, text, ref):
    CHECKS[pid] = (cat, technique, text, ref)

NOT_BUILT = {}

def load_props():
    ids = []
    with open(os.path.join(VERIF, "properties.jsonl")) as f:
        for l in f:
            if l.strip():
                ids.append(json.loads(l)["id"])
    return ids

exec(open(os.path.join(VERIF, "tools", "manifest_table.py")).read())

def main():
    ids = load_props()
    checks = []
    na = []
    for pid in ids:
        if pid in CHECKS:
            cat, technique, text, ref = CHECKS[pid]
            checks.append({
                "property_id": pid,
                "quick_cmd": f"./run.sh {pid} quick",
                "thorough_cmd": f"./run.sh {pid} thorough",
                "evidence_file": f"/verif/evidence/{pid}.json",
                "replay_cmd_template": "./run.sh explain {path}",
                "engine": "s2scheck",
                "level_claimed": {"category": cat, "text": text, "design_ref": ref},
                "level_note": TRUST,
                "technique": technique,
            })
        else:
            na.append({"property_id": pid, "reason": NOT_BUILT.get(pid, "no sound static rule built for this property")})
    m = {
        "version": 1,
        "setup_cmd": "./setup.sh",
        "hooks": {
            "guard": "verif",
            "enable": "no hooks: the checker never executes the repository; it type-checks /repo's working tree with go/packages and analyses AST/SSA (build tag 'verif' is reserved and unused)",
            "baseline_off_cmd": "cd /repo && go test -mod=mod -json -vet=off -count=1 -timeout 25m ./...",
            "source_commits": [],
            "add_only": True,
        },
        "engines": [{
            "name": "s2scheck",
            "path": "/verif/checker",
            "serves_properties": sorted(CHECKS.keys()),
            "kind_free_text": "repository-specific static analyser (go/packages + go/types type-graph walks, go/ssa dominance / must-pass / origin evaluation, AST table extraction); one binary, one rule file per property",
        }],
        "checks": checks,
        "not_applicable": na,
        "notes": NOTES,
    }
    with open(os.path.join(VERIF, "MANIFEST.json"), "w") as f:
        json.dump(m, f, indent=1)
        f.write("\n")
    try:
        import jsonschema
        jsonschema.validate(m, json.load(open("/root/.vp/MANIFEST.schema.json")))
        print("MANIFEST.json valid;", len(checks), "checks,", len(na), "not applicable")
    except ImportError:
        print("jsonschema not available; wrote MANIFEST.json")

if __name__ == "__main__":
    main()
