#!/usr/bin/env python3
"""Generate the per-property prompts of a seed round from tools/seed_prompt_round10_example.txt (the C01 prompt of
round 10), properties.jsonl and the ideas recorded in seeded/<id>-*/meta.json.
usage: tools/seed_prompts.py <round-dir e.g. /tmp/seed11> <Nine> <TENTH> <hint-file>"""
import json, os, sys, glob
out, count_word, ordinal, hintfile = sys.argv[1:5]
tpl = open('/verif/tools/seed_prompt_round10_example.txt').read()
hint = open(hintfile).read().strip() + " "
os.makedirs(out, exist_ok=True)
props = [json.loads(l) for l in open('/verif/properties.jsonl')]
for p in props:
    pid = p['id']
    s = tpl.replace('/tmp/seed10/C01', out + '/' + pid).replace('/tmp/seed10/out-C01', out + '/out-' + pid).replace('"property": "C01"', '"property": "%s"' % pid)
    i = s.index('Here is a semantic property'); j = s.index('YOUR TASK')
    files = p.get('anchors', {}).get('files', [])
    block = ("Here is a semantic property of the project that must always hold:\n\nProperty %s: %s\n\nStatement: %s\n\nQuantified over: %s\n\n"
             "Why the existing tests cannot settle it: %s\n\nFiles where the mechanism lives: %s\n\n\n") % (
        pid, p['title'], p['statement'], p['quantifier']['text'], p['why_tests_cant'], ', '.join(files))
    s = s[:i] + block + s[j:]
    s = s.replace('Eight other testers', count_word + ' other testers').replace('Find a NINTH', 'Find a ' + ordinal)
    a = s.index('Ideas that have rarely been tried:'); b = s.index('The change may be in any non-test')
    s = s[:a] + hint + s[b:]
    m = s.index('as long as it breaks THIS property:') + len('as long as it breaks THIS property:')
    k = s.index(' Keep the diff small (typically 1-15 lines).')
    ideas = []
    for d in sorted(glob.glob('/verif/seeded/%s-*' % pid)):
        meta = json.load(open(d + '/meta.json'))
        ideas.append(" - " + meta.get('clause_attacked', '')[:230].replace('\n', ' ') + " [files: " + ", ".join(meta.get('files_changed', [])) + "]")
    s = s[:m] + "\n" + "\n".join(ideas) + s[k:]
    open('%s/%s.prompt.txt' % (out, pid), 'w').write(s)
print('wrote', len(props), 'prompts to', out)
