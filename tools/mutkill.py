#!/usr/bin/env python3
"""Second pass of the mutation sweep (exploration aid, not a check): which of the mutants that no property check
reported would the repository's own pinned test suite have caught?  Each survivor of tools/mutsweep.py is applied to
a scratch copy of /repo under /tmp (removed afterwards), the pinned suite is run, and the mutant is marked
`tests_kill` when a baseline test no longer passes (or the build breaks).  What remains - passes the tests, reported
by no check - is the list worth triaging by hand.

usage: tools/mutkill.py --in /tmp/ms_all.json --out /tmp/ms_kill.json [--jobs 8]
"""
import argparse, json, os, shutil, subprocess, tempfile, threading, queue, collections

REPO = "/repo"
ENV = dict(os.environ, GOFLAGS="-mod=mod", GOPROXY="off")
BASE = set(json.load(open("/root/.vp/BASELINE.json"))["stable_pass"])


def run_suite(d):
    r = subprocess.run(["go", "test", "-json", "-vet=off", "-count=1", "-timeout", "5m", "./..."], cwd=d, env=ENV,
                       capture_output=True, text=True)
    res = {}
    for l in r.stdout.splitlines():
        try:
            e = json.loads(l)
        except Exception:
            continue
        if e.get("Test") and e.get("Action") in ("pass", "fail", "skip"):
            res[e["Package"] + "::" + e["Test"]] = e["Action"]
    passed = {k for k, v in res.items() if v == "pass"}
    return sorted(BASE - passed)


def worker(k, q, out, lock):
    d = tempfile.mkdtemp(prefix=f"mutkill{k}.")
    shutil.rmtree(d)
    shutil.copytree(REPO, d, ignore=shutil.ignore_patterns(".git"))
    try:
        while True:
            try:
                m = q.get_nowait()
            except queue.Empty:
                return
            path = os.path.join(d, m["file"])
            src = open(os.path.join(REPO, m["file"]), "rb").read()
            open(path, "wb").write(src[:m["off"]] + m["new"].encode() + src[m["end"]:])
            try:
                missing = run_suite(d)
            finally:
                open(path, "wb").write(src)
            with lock:
                out.append(dict(m, tests_kill=bool(missing), tests_failed=missing[:3]))
                if len(out) % 25 == 0:
                    c = collections.Counter(o["tests_kill"] for o in out)
                    print(f"  {len(out)} done: {dict(c)}", flush=True)
    finally:
        shutil.rmtree(d, ignore_errors=True)


def main():
    ap = argparse.ArgumentParser()
    ap.add_argument("--in", dest="inp", required=True)
    ap.add_argument("--out", required=True)
    ap.add_argument("--jobs", type=int, default=8)
    a = ap.parse_args()
    muts = [m for m in json.load(open(a.inp)) if m["status"] == "survived"]
    q = queue.Queue()
    for m in muts:
        q.put(m)
    out, lock = [], threading.Lock()
    ts = [threading.Thread(target=worker, args=(k, q, out, lock)) for k in range(a.jobs)]
    for t in ts:
        t.start()
    for t in ts:
        t.join()
    json.dump(out, open(a.out, "w"), indent=1)
    c = collections.Counter(o["tests_kill"] for o in out)
    print(dict(c))


if __name__ == "__main__":
    main()
