#!/bin/bash
# usage: tools/seed_eval.sh <seed-name> <dir-with patch.diff, demo/, meta.json> [property ids to run, default: meta.property]
# 1) confirms in a scratch worktree that the change compiles, the baseline suite still passes, and the demonstration
#    fails with the change and passes without it; 2) applies the patch to /repo, runs the checks, undoes it.
set -u
NAME="$1"; SRC="$2"; shift 2
PROPS="${*:-$(python3 -c "import json;print(json.load(open('$SRC/meta.json'))['property'])")}"
export GOFLAGS=-mod=mod GOPROXY=off
W=$(mktemp -d /tmp/seedeval.XXXX)
git -C /repo worktree add --detach "$W/wt" HEAD >/dev/null 2>&1 || { echo "worktree failed"; exit 2; }
cleanup() { git -C /repo worktree remove --force "$W/wt" >/dev/null 2>&1; rm -rf "$W"; }
trap cleanup EXIT
cd "$W/wt"
cp -r "$SRC/demo/." . 2>/dev/null
DEMOPKGS=$(cd "$SRC/demo" && find . -name '*_test.go' -exec dirname {} \; | sort -u | sed 's|^\./|./|')
echo "== demo WITHOUT the change (must pass)"
go test -count=1 $DEMOPKGS -run "$(grep -ho 'func Test[A-Za-z0-9_]*' $(find "$SRC/demo" -name '*_test.go') | sed 's/func //' | paste -sd'|')" 2>&1 | grep -E "^(ok|FAIL|---|panic)" | head -5
git apply "$SRC/patch.diff" || { echo "PATCH DOES NOT APPLY"; exit 3; }
echo "== build with the change"; go build ./... && echo build ok
echo "== demo WITH the change (must fail)"
go test -count=1 $DEMOPKGS -run "$(grep -ho 'func Test[A-Za-z0-9_]*' $(find "$SRC/demo" -name '*_test.go') | sed 's/func //' | paste -sd'|')" 2>&1 | grep -E "^(ok|FAIL|---|panic)" | head -5
echo "== baseline suite with the change (demo test files removed)"
find . -name 'zz_seed*_test.go' -delete; (cd "$SRC/demo" && find . -name '*_test.go') | while read f; do rm -f "$f"; done
/verif/tools/baseline.sh "$W/wt"
cd /verif
[ -n "${SKIP_REPO:-}" ] && { echo "== (checks on /repo skipped)"; exit 0; }
echo "== checks on /repo with the patch applied"
git -C /repo apply "$SRC/patch.diff" || { echo "patch does not apply to /repo"; exit 3; }
for p in $PROPS; do ./run.sh $p quick 2>&1 | grep -E "^\s+\[(violated|undecided)\]|^VIOLATION|^$p " | cut -c1-400; done
git -C /repo checkout -- .
git -C /repo status --short | head -3
