#!/usr/bin/env python3
"""usage: seed_keep.py <seed-name> <srcdir> <detected_by text> [notes]
copies patch.diff, demo/ and meta.json into /verif/seeded/<seed-name>/ and records the confirmation."""
import json,sys,shutil,os
name,src,det=sys.argv[1],sys.argv[2],sys.argv[3]
notes=sys.argv[4] if len(sys.argv)>4 else ""
dst='/verif/seeded/'+name
os.makedirs(dst,exist_ok=True)
shutil.copy(src+'/patch.diff',dst+'/patch.diff')
if os.path.isdir(dst+'/demo'): shutil.rmtree(dst+'/demo')
shutil.copytree(src+'/demo',dst+'/demo')
# demo files must not be picked up as tests of /verif modules: rename *_test.go -> *_test.go.txt
for root,_,files in os.walk(dst+'/demo'):
    for f in files:
        if f.endswith('_test.go'):
            os.rename(os.path.join(root,f),os.path.join(root,f+'.txt'))
m=json.load(open(src+'/meta.json'))
m['breaks_property']=m.get('property')
m['origin']='written by an independent sub-agent that was given only the property text and a scratch worktree of /repo'
m['confirmed_by_me']=('tools/seed_eval.sh in a fresh scratch worktree of /repo HEAD: patch applies, go build ./... ok, the 544 baseline tests still pass with the change, '
   'the demonstration passes without the change and fails with it; then patch applied to /repo, checks run, patch reverted (git -C /repo checkout -- .)')
m['detected_by']=det
if notes: m['notes']=notes
m['demo_note']='demo files are stored with a .txt suffix; copy them (without the suffix) into the same relative path of a worktree that has patch.diff applied'
json.dump(m,open(dst+'/meta.json','w'),indent=1)
print('kept',dst)
