#!/usr/bin/env python3
"""Mutation sweep: an exploration aid for blind spots of the checks (not a check itself, not in MANIFEST).

For every small mutation (checker/bin/mutgen) of the files a property is anchored in, the checks of the properties
anchored in that file are run on the mutated source through the checker's overlay (nothing is written to /repo).
A mutant no property reports is a *survivor*: either equivalent, outside the 20 properties, or a missing obligation.
Survivors are written to the output file for triage; with --tests they are additionally run against the package's
existing tests in a scratch copy under /tmp (removed afterwards) to see whether the tests would have caught them.

usage: tools/mutsweep.py [--files f1,f2] [--jobs N] [--out file] [--limit N]
"""
import argparse, json, os, subprocess, sys, tempfile, concurrent.futures, collections

VERIF = os.path.dirname(os.path.dirname(os.path.abspath(__file__)))
REPO = os.environ.get("S2S_REPO", "/repo")
BIN = os.path.join(VERIF, "checker/bin/s2scheck")
MUTGEN = os.path.join(VERIF, "checker/bin/mutgen")
ENV = dict(os.environ, PATH="/opt/veriftools/go1.26.8/bin:" + os.environ["PATH"], GOTOOLCHAIN="local",
           GOFLAGS="-mod=mod", GOPROXY="off", GOSUMDB="off", GOWORK="off")


def file_props():
    m = collections.defaultdict(list)
    for line in open(os.path.join(VERIF, "properties.jsonl")):
        p = json.loads(line)
        for f in p["anchors"]["files"]:
            m[f].append(p["id"])
    return m


def run_props(props, overlay=None):
    cmd = [BIN, "-repo", REPO, "-verif", VERIF, "-props", ",".join(props), "-variant"]
    if overlay:
        cmd += ["-overlay", overlay]
    r = subprocess.run(cmd, env=ENV, capture_output=True, text=True)
    try:
        return json.loads(r.stdout.strip().splitlines()[-1])
    except Exception:
        return {"_error": [{"rule": "engine", "construct": (r.stdout + r.stderr)[-300:]}]}


def key(o):
    return o["rule"] + " | " + o["construct"]


def one(args):
    m, props, base, tmpdir = args
    src = open(os.path.join(REPO, m["file"]), "rb").read()
    mutated = src[:m["off"]] + m["new"].encode() + src[m["end"]:]
    fd, path = tempfile.mkstemp(dir=tmpdir, suffix=".go")
    os.write(fd, mutated)
    os.close(fd)
    try:
        res = run_props(props, os.path.join(REPO, m["file"]) + "=" + path)
    finally:
        os.unlink(path)
    fired = {}
    invalid = False
    for p, obs in res.items():
        new = [key(o) for o in obs if key(o) not in base.get(p, set())]
        if any(o["rule"] == "engine" for o in obs):
            invalid = True
        if new:
            fired[p] = new
    return m, fired, invalid


def main():
    ap = argparse.ArgumentParser()
    ap.add_argument("--files", default="")
    ap.add_argument("--jobs", type=int, default=12)
    ap.add_argument("--out", default="/tmp/mutsweep.json")
    ap.add_argument("--limit", type=int, default=0)
    ap.add_argument("--benign", action="store_true", help="behaviour-preserving rewrites (mutgen -benign): anything a check reports is a false alarm")
    ap.add_argument("--allprops", action="store_true", help="run every property on every mutant (not only those anchored in the mutated file)")
    ap.add_argument("--from", dest="prev", default="", help="re-run only the survivors of an earlier sweep (with --benign: only the rewrites that were reported)")
    ap.add_argument("--kinds", default="", help="comma-separated substrings: keep only mutants whose kind contains one of them")
    a = ap.parse_args()
    fp = file_props()
    files = [f for f in (a.files.split(",") if a.files else sorted(fp)) if f]
    files = [f for f in files if not f.endswith("_gen.go") and not f.startswith("cmd/")]
    allprops = sorted({p for f in files for p in fp.get(f, [])})
    if a.allprops or a.prev:
        allprops = sorted({p for v in fp.values() for p in v})
    base_raw = run_props(allprops)
    base = {p: {key(o) for o in obs} for p, obs in base_raw.items()}
    subprocess.run([os.path.join(VERIF, "run.sh"), "build"], check=True)
    if not os.path.exists(MUTGEN):
        env = dict(os.environ, PATH="/opt/veriftools/go1.26.8/bin:" + os.environ.get("PATH", ""), GOTOOLCHAIN="local", GOFLAGS="-mod=mod", GOPROXY="off", GOSUMDB="off", GOWORK="off")
        subprocess.run(["go", "build", "-o", MUTGEN, "./cmd/mutgen"], cwd=os.path.join(VERIF, "checker"), env=env, check=True)
    muts = []
    if a.prev:
        muts = [{k: m[k] for k in ("file", "func", "line", "kind", "off", "end", "old", "new")} for m in json.load(open(a.prev)) if m["status"] == ("killed" if a.benign else "survived")]
        files = []
    for f in files:
        r = subprocess.run([MUTGEN] + (["-benign"] if a.benign else []) + [f], cwd=REPO, capture_output=True, text=True)
        for m in (json.loads(r.stdout) or []):
            muts.append(m)
    if a.kinds:
        ks = [k for k in a.kinds.split(",") if k]
        muts = [m for m in muts if any(k in m["kind"] for k in ks)]
    if a.limit:
        muts = muts[:a.limit]
    print(f"{len(muts)} mutants over {len(files)} files; properties {','.join(allprops)}", flush=True)
    tmpdir = tempfile.mkdtemp(prefix="mutsweep.")
    out = []
    n = 0
    with concurrent.futures.ThreadPoolExecutor(a.jobs) as ex:
        for m, fired, invalid in ex.map(one, [(m, allprops if a.allprops else fp.get(m["file"], allprops), base, tmpdir) for m in muts]):
            n += 1
            status = "invalid" if invalid else ("killed" if fired else "survived")
            out.append(dict(m, status=status, fired={p: v[:3] for p, v in fired.items()}))
            if n % 50 == 0:
                c = collections.Counter(o["status"] for o in out)
                print(f"  {n}/{len(muts)} {dict(c)}", flush=True)
    os.rmdir(tmpdir)
    json.dump(out, open(a.out, "w"), indent=1)
    c = collections.Counter(o["status"] for o in out)
    print(dict(c))


if __name__ == "__main__":
    main()
