#!/bin/bash
# Runs the repository's pinned baseline suite (guard off: there are no hooks) and compares with BASELINE.json.
# usage: tools/baseline.sh [repo-dir]
REPO="${1:-/repo}"
OUT=$(mktemp)
(cd "$REPO" && go test -mod=mod -json -vet=off -count=1 -timeout 25m ./... > "$OUT" 2>/dev/null)
python3 - "$OUT" <<'PY'
import json,sys
base=set(json.load(open('/root/.vp/BASELINE.json'))['stable_pass'])
res={}
for l in open(sys.argv[1]):
    try: e=json.loads(l)
    except Exception: continue
    if e.get('Test') and e.get('Action') in('pass','fail','skip'):
        res[e['Package']+'::'+e['Test']]=e['Action']
passed={k for k,v in res.items() if v=='pass'}
failed=sorted(k for k,v in res.items() if v=='fail')
missing=sorted(base-passed)
print(f"baseline={len(base)} passed={len(passed)} failed={len(failed)} baseline_not_passed={len(missing)}")
for k in failed[:20]: print("  FAIL",k)
for k in missing[:20]: print("  MISSING",k)
sys.exit(1 if missing else 0)
PY
rc=$?
rm -f "$OUT"
exit $rc
