#!/bin/bash
# validates MANIFEST.json and evidence/*.json against the schemas
cd "$(dirname "$0")/.."
python3-vt - <<'PY'
import json,glob,jsonschema,sys
ok=True
m=json.load(open('MANIFEST.json'))
jsonschema.validate(m,json.load(open('/root/.vp/MANIFEST.schema.json')))
print('MANIFEST ok:',len(m['checks']),'checks,',len(m.get('not_applicable',[])),'n/a')
es=json.load(open('/root/.vp/EVIDENCE.schema.json'))
for c in m['checks']:
    f=c['evidence_file']
    try:
        e=json.load(open(f)); jsonschema.validate(e,es)
        assert e['level']==c['level_claimed']['category'],(e['level'],c['level_claimed']['category'])
        print(' evidence ok',f,e['tier'],'obl',e['coverage'].get('obligations'),'viol',e.get('violations'))
    except Exception as ex:
        ok=False; print(' EVIDENCE BAD',f,str(ex)[:300])
sys.exit(0 if ok else 1)
PY
