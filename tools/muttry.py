#!/usr/bin/env python3
"""Re-run the checks on selected mutants of a previous sweep: tools/muttry.py <sweep.json> <file> <line>[,<line>...] [kind-substring]"""
import json, sys, os
sys.path.insert(0, os.path.dirname(os.path.abspath(__file__)))
import mutsweep as ms, tempfile
sweep, f, lines = sys.argv[1], sys.argv[2], {int(x) for x in sys.argv[3].split(",")}
kind = sys.argv[4] if len(sys.argv) > 4 else ""
fp = ms.file_props()
props = fp.get(f) or sorted({p for v in fp.values() for p in v})
base = {p: {ms.key(o) for o in obs} for p, obs in ms.run_props(props).items()}
tmp = tempfile.mkdtemp(prefix="muttry.")
for m in json.load(open(sweep)):
    if m["file"] == f and m["line"] in lines and kind in m["kind"]:
        _, fired, invalid = ms.one((m, props, base, tmp))
        print(m["line"], m["kind"], "INVALID" if invalid else "", {p: [x.split(" | ")[0] for x in v][:3] for p, v in fired.items()} or "SURVIVES")
os.rmdir(tmp)
