package main

import (
	"fmt"
	"os"
	"runtime"
	"strings"
	"time"

	"golang.org/x/tools/go/callgraph/cha"
	"golang.org/x/tools/go/callgraph/vta"
	"golang.org/x/tools/go/packages"
	"golang.org/x/tools/go/ssa"
	"golang.org/x/tools/go/ssa/ssautil"
)

func main() {
	t0 := time.Now()
	cfg := &packages.Config{Mode: packages.NeedName | packages.NeedFiles | packages.NeedCompiledGoFiles | packages.NeedImports | packages.NeedTypes | packages.NeedTypesSizes | packages.NeedSyntax | packages.NeedTypesInfo | packages.NeedModule, Dir: "/repo", Tests: false}
	pkgs, err := packages.Load(cfg, "./proxy/...", "./transport/...", "./interceptor/...", "./encryption/...", "./auth/...", "./collect/...", "./config/...", "./common/...", "./proto/compat/...", "./cmd/proxy/...", "./app/...")
	if err != nil {
		panic(err)
	}
	if packages.PrintErrors(pkgs) > 0 {
		os.Exit(1)
	}
	fmt.Println("loaded roots", len(pkgs), time.Since(t0))
	n := 0
	packages.Visit(pkgs, nil, func(p *packages.Package) { n++ })
	fmt.Println("all pkgs", n)
	prog, spkgs := ssautil.Packages(pkgs, ssa.InstantiateGenerics)
	for _, sp := range spkgs {
		if sp != nil {
			sp.Build()
		}
	}
	fmt.Println("ssa built", time.Since(t0))
	fns := ssautil.AllFunctions(prog)
	fmt.Println("functions", len(fns))
	cg := cha.CallGraph(prog); _ = vta.CallGraph
	fmt.Println("vta nodes", len(cg.Nodes), time.Since(t0))
	for f := range fns {
		if f.Pkg != nil && strings.HasSuffix(f.Pkg.Pkg.Path(), "s2s-proxy/proxy") && f.Name() == "ReportStreamValue" {
			f.WriteTo(os.Stdout)
			for _, e := range cg.Nodes[f].In {
				fmt.Println("caller:", e.Caller.Func, e.Site)
			}
		}
	}
	var m runtime.MemStats
	runtime.ReadMemStats(&m)
	fmt.Println("heap MB", m.HeapAlloc>>20, "sys MB", m.Sys>>20)
}
