package main

import (
	"fmt"
	"go/ast"
	"go/types"
	"os"
	"sort"
	"strings"

	"golang.org/x/tools/go/packages"
)

var impls = map[*types.Named][]*types.Named{}

func implsOf(iface *types.Named) []*types.Named {
	if r, ok := impls[iface]; ok {
		return r
	}
	var res []*types.Named
	pkg := iface.Obj().Pkg()
	it := iface.Underlying().(*types.Interface)
	for _, name := range pkg.Scope().Names() {
		tn, ok := pkg.Scope().Lookup(name).(*types.TypeName)
		if !ok {
			continue
		}
		n, ok := tn.Type().(*types.Named)
		if !ok {
			continue
		}
		if _, isStruct := n.Underlying().(*types.Struct); !isStruct {
			continue
		}
		if types.Implements(types.NewPointer(n), it) {
			res = append(res, n)
		}
	}
	impls[iface] = res
	return res
}

func isFailure(n *types.Named) bool {
	return n.Obj().Name() == "Failure" && strings.HasSuffix(n.Obj().Pkg().Path(), "proto/1_22/api/failure/v1")
}

// type-derived paths to Failure from t
func walk(t types.Type, path []string, onpath map[*types.Named]bool, out *[]string) {
	switch tt := t.(type) {
	case *types.Pointer:
		walk(tt.Elem(), path, onpath, out)
	case *types.Slice:
		walk(tt.Elem(), append(path, "[]"), onpath, out)
	case *types.Map:
		walk(tt.Elem(), append(path, "[]"), onpath, out)
	case *types.Named:
		if isFailure(tt) {
			*out = append(*out, strings.Join(path, "/"))
			return
		}
		if onpath[tt] {
			return
		}
		switch u := tt.Underlying().(type) {
		case *types.Struct:
			onpath[tt] = true
			defer delete(onpath, tt)
			for i := 0; i < u.NumFields(); i++ {
				f := u.Field(i)
				if !f.Exported() {
					continue
				}
				p := append(append([]string{}, path...), f.Name())
				walk(f.Type(), p, onpath, out)
			}
		case *types.Interface:
			if tt.Obj().Pkg() == nil {
				return
			}
			for _, impl := range implsOf(tt) {
				walk(impl, append(append([]string{}, path...), "<"+impl.Obj().Name()+">"), onpath, out)
			}
		}
	}
}

type absval struct{ path []string }

func main() {
	cfg := &packages.Config{Mode: packages.NeedName | packages.NeedTypes | packages.NeedImports | packages.NeedDeps | packages.NeedSyntax | packages.NeedTypesInfo | packages.NeedFiles, Dir: "/repo"}
	pkgs, err := packages.Load(cfg, "github.com/temporalio/s2s-proxy/proto/compat")
	if err != nil {
		panic(err)
	}
	if packages.PrintErrors(pkgs) > 0 {
		os.Exit(1)
	}
	pkg := pkgs[0]
	info := pkg.TypesInfo
	// 1. conversion roots
	roots := map[*types.Named]bool{}
	var repair *ast.FuncDecl
	for _, f := range pkg.Syntax {
		for _, d := range f.Decls {
			fd, ok := d.(*ast.FuncDecl)
			if !ok {
				continue
			}
			if fd.Name.Name == "adminConvertTo122" || fd.Name.Name == "frontendConvertTo122" {
				ast.Inspect(fd, func(n ast.Node) bool {
					if cl, ok := n.(*ast.CompositeLit); ok {
						if nt, ok := info.TypeOf(cl).(*types.Named); ok {
							roots[nt] = true
						}
					}
					return true
				})
			}
			if fd.Name.Name == "RepairInvalidUTF8" {
				repair = fd
			}
		}
	}
	fmt.Println("conversion roots:", len(roots))
	// 2. generated visitor paths per case type
	gen := map[*types.Named]map[string]bool{}
	var sw *ast.TypeSwitchStmt
	for _, s := range repair.Body.List {
		if ts, ok := s.(*ast.TypeSwitchStmt); ok {
			sw = ts
		}
	}
	var interp func(stmts []ast.Stmt, env map[string][]string, out map[string]bool)
	pathOfExpr := func(e ast.Expr, env map[string][]string) ([]string, bool) {
		switch x := e.(type) {
		case *ast.Ident:
			p, ok := env[x.Name]
			return p, ok
		case *ast.CallExpr: // recv.GetX()
			sel, ok := x.Fun.(*ast.SelectorExpr)
			if !ok {
				return nil, false
			}
			id, ok := sel.X.(*ast.Ident)
			if !ok {
				return nil, false
			}
			base, ok := env[id.Name]
			if !ok || !strings.HasPrefix(sel.Sel.Name, "Get") {
				return nil, false
			}
			return append(append([]string{}, base...), strings.TrimPrefix(sel.Sel.Name, "Get")), true
		case *ast.SelectorExpr: // oneof.Field
			id, ok := x.X.(*ast.Ident)
			if !ok {
				return nil, false
			}
			base, ok := env[id.Name]
			if !ok {
				return nil, false
			}
			return append(append([]string{}, base...), x.Sel.Name), true
		}
		return nil, false
	}
	interp = func(stmts []ast.Stmt, env map[string][]string, out map[string]bool) {
		for _, s := range stmts {
			switch st := s.(type) {
			case *ast.AssignStmt:
				if len(st.Lhs) == 1 && len(st.Rhs) == 1 {
					if id, ok := st.Lhs[0].(*ast.Ident); ok {
						if p, ok := pathOfExpr(st.Rhs[0], env); ok {
							env[id.Name] = p
						}
					}
				}
			case *ast.RangeStmt:
				p, ok := pathOfExpr(st.X, env)
				if !ok {
					fmt.Println("UNKNOWN range", pkg.Fset.Position(st.Pos()))
					continue
				}
				v := st.Value.(*ast.Ident).Name
				env[v] = append(append([]string{}, p...), "[]")
				interp(st.Body.List, env, out)
			case *ast.TypeSwitchStmt:
				as := st.Assign.(*ast.AssignStmt)
				v := as.Lhs[0].(*ast.Ident).Name
				ta := as.Rhs[0].(*ast.TypeAssertExpr)
				p, ok := pathOfExpr(ta.X, env)
				if !ok {
					fmt.Println("UNKNOWN tswitch", pkg.Fset.Position(st.Pos()))
					continue
				}
				for _, c := range st.Body.List {
					cc := c.(*ast.CaseClause)
					for _, te := range cc.List {
						nt := info.TypeOf(te).(*types.Pointer).Elem().(*types.Named)
						env[v] = append(append([]string{}, p...), "<"+nt.Obj().Name()+">")
						interp(cc.Body, env, out)
					}
				}
			case *ast.IfStmt:
				// if changed, err := repairInvalidUTF8InFailure(y1); ...
				if as, ok := st.Init.(*ast.AssignStmt); ok {
					if call, ok := as.Rhs[0].(*ast.CallExpr); ok {
						if id, ok := call.Fun.(*ast.Ident); ok && id.Name == "repairInvalidUTF8InFailure" {
							p, ok := pathOfExpr(call.Args[0], env)
							if !ok {
								fmt.Println("UNKNOWN arg", pkg.Fset.Position(st.Pos()))
							}
							out[strings.Join(p, "/")] = true
						}
					}
				}
			default:
				fmt.Printf("UNHANDLED stmt %T at %v\n", s, pkg.Fset.Position(s.Pos()))
			}
		}
	}
	for _, c := range sw.Body.List {
		cc := c.(*ast.CaseClause)
		for _, te := range cc.List {
			nt := info.TypeOf(te).(*types.Pointer).Elem().(*types.Named)
			out := map[string]bool{}
			interp(cc.Body, map[string][]string{"root": {}}, out)
			gen[nt] = out
		}
	}
	fmt.Println("generated cases:", len(gen))
	// 3. compare
	var rootList []*types.Named
	for r := range roots {
		rootList = append(rootList, r)
	}
	sort.Slice(rootList, func(i, j int) bool { return rootList[i].String() < rootList[j].String() })
	missingTotal, extraTotal, withFail, totalPaths := 0, 0, 0, 0
	for _, r := range rootList {
		var want []string
		walk(r, nil, map[*types.Named]bool{}, &want)
		if len(want) == 0 {
			if g, ok := gen[r]; ok && len(g) > 0 {
				fmt.Println("EXTRA case for root w/o failure", r)
			}
			continue
		}
		withFail++
		totalPaths += len(want)
		g := gen[r]
		if g == nil {
			fmt.Printf("MISSING CASE %s (%d failure paths) e.g. %s\n", r.Obj().Pkg().Name()+"."+r.Obj().Name(), len(want), want[0])
			missingTotal += len(want)
			continue
		}
		wantSet := map[string]bool{}
		for _, w := range want {
			wantSet[w] = true
			if !g[w] {
				fmt.Printf("MISSING PATH %s: %s\n", r.Obj().Name(), w)
				missingTotal++
			}
		}
		for p := range g {
			if !wantSet[p] {
				fmt.Printf("EXTRA PATH %s: %s\n", r.Obj().Name(), p)
				extraTotal++
			}
		}
	}
	fmt.Println("roots with failure paths:", withFail, "total paths:", totalPaths, "missing:", missingTotal, "extra:", extraTotal)
}
