package main

import (
	"fmt"
	"go/types"
	"os"
	"strings"

	"golang.org/x/tools/go/packages"
	"golang.org/x/tools/go/ssa"
	"golang.org/x/tools/go/ssa/ssautil"
)

func main() {
	cfg := &packages.Config{Mode: packages.NeedName | packages.NeedFiles | packages.NeedCompiledGoFiles | packages.NeedImports | packages.NeedTypes | packages.NeedTypesSizes | packages.NeedSyntax | packages.NeedTypesInfo | packages.NeedModule, Dir: "/repo"}
	pkgs, err := packages.Load(cfg, "./proxy")
	if err != nil {
		panic(err)
	}
	if packages.PrintErrors(pkgs) > 0 {
		os.Exit(1)
	}
	prog, spkgs := ssautil.Packages(pkgs, ssa.InstantiateGenerics)
	_ = prog
	sp := spkgs[0]
	sp.Build()
	for _, recvName := range []string{"adminServiceProxyServer", "workflowServiceProxyServer"} {
		tn := sp.Pkg.Scope().Lookup(recvName).(*types.TypeName)
		ms := prog.MethodSets.MethodSet(types.NewPointer(tn.Type()))
		n, ok, bad := 0, 0, 0
		for i := 0; i < ms.Len(); i++ {
			sel := ms.At(i)
			fn := prog.MethodValue(sel)
			if fn == nil || fn.Pkg != sp || fn.Synthetic != "" {
				continue
			}
			n++
			var clientCalls []string
			for _, b := range fn.Blocks {
				for _, ins := range b.Instrs {
					c, isCall := ins.(ssa.CallInstruction)
					if !isCall {
						continue
					}
					cc := c.Common()
					if cc.IsInvoke() {
						rt := cc.Value.Type().String()
						if strings.HasSuffix(rt, "AdminServiceClient") || strings.HasSuffix(rt, "WorkflowServiceClient") {
							clientCalls = append(clientCalls, cc.Method.Name())
						}
					}
				}
			}
			if len(clientCalls) == 1 && clientCalls[0] == fn.Name() {
				ok++
			} else {
				bad++
				fmt.Println("  DEVIANT", recvName, fn.Name(), clientCalls)
			}
		}
		fmt.Println(recvName, "methods", n, "ok", ok, "deviant", bad)
	}
}
