package main

import (
	"fmt"
	"go/constant"
	"go/types"
	"os"
	"sort"
	"strings"

	"golang.org/x/tools/go/packages"
)

var impls = map[*types.Named][]*types.Named{}

func implsOf(iface *types.Named) []*types.Named {
	if r, ok := impls[iface]; ok {
		return r
	}
	var res []*types.Named
	pkg := iface.Obj().Pkg()
	it := iface.Underlying().(*types.Interface)
	for _, name := range pkg.Scope().Names() {
		tn, ok := pkg.Scope().Lookup(name).(*types.TypeName)
		if !ok {
			continue
		}
		n, ok := tn.Type().(*types.Named)
		if !ok {
			continue
		}
		if _, isStruct := n.Underlying().(*types.Struct); !isStruct {
			continue
		}
		if types.Implements(types.NewPointer(n), it) {
			res = append(res, n)
		}
	}
	impls[iface] = res
	return res
}

var nsNames = map[string]bool{"Namespace": true, "WorkflowNamespace": true, "ParentWorkflowNamespace": true}

func walk(t types.Type, path []string, onpath map[*types.Named]bool, out *[]string) {
	switch tt := t.(type) {
	case *types.Pointer:
		walk(tt.Elem(), path, onpath, out)
	case *types.Slice:
		walk(tt.Elem(), path, onpath, out)
	case *types.Map:
		walk(tt.Elem(), path, onpath, out)
	case *types.Named:
		if onpath[tt] {
			return
		}
		switch u := tt.Underlying().(type) {
		case *types.Struct:
			onpath[tt] = true
			defer delete(onpath, tt)
			for i := 0; i < u.NumFields(); i++ {
				f := u.Field(i)
				if !f.Exported() {
					continue
				}
				p := append(append([]string{}, path...), tt.Obj().Name()+"."+f.Name())
				if b, ok := f.Type().(*types.Basic); ok && b.Kind() == types.String {
					if nsNames[f.Name()] || (tt.Obj().Name() == "NamespaceInfo" && f.Name() == "Name") {
						*out = append(*out, strings.Join(p, "/"))
					}
				}
				walk(f.Type(), p, onpath, out)
			}
		case *types.Interface:
			if tt.Obj().Pkg() == nil {
				return
			}
			for _, impl := range implsOf(tt) {
				walk(impl, path, onpath, out)
			}
		}
	}
}

func camel(s string) string {
	parts := strings.Split(strings.ToLower(s), "_")
	for i, p := range parts {
		parts[i] = strings.ToUpper(p[:1]) + p[1:]
	}
	return strings.Join(parts, "")
}

func main() {
	cfg := &packages.Config{Mode: packages.NeedName | packages.NeedTypes | packages.NeedImports | packages.NeedDeps, Dir: "/repo"}
	pkgs, err := packages.Load(cfg, "go.temporal.io/api/history/v1", "go.temporal.io/api/enums/v1", "go.temporal.io/api/workflowservice/v1")
	if err != nil {
		panic(err)
	}
	if packages.PrintErrors(pkgs) > 0 {
		os.Exit(1)
	}
	var hist, enums, wfs *types.Package
	for _, p := range pkgs {
		switch p.Types.Name() {
		case "history":
			hist = p.Types
		case "enums":
			enums = p.Types
		case "workflowservice":
			wfs = p.Types
		}
	}
	et := enums.Scope().Lookup("EventType").Type()
	type ev struct {
		name string
		val  int64
	}
	var evs []ev
	for _, n := range enums.Scope().Names() {
		c, ok := enums.Scope().Lookup(n).(*types.Const)
		if !ok || !types.Identical(c.Type(), et) {
			continue
		}
		v, _ := constant.Int64Val(c.Val())
		evs = append(evs, ev{n, v})
	}
	sort.Slice(evs, func(i, j int) bool { return evs[i].val < evs[j].val })
	for _, e := range evs {
		base := strings.TrimPrefix(e.name, "EVENT_TYPE_")
		wname := "HistoryEvent_" + camel(base) + "EventAttributes"
		obj := hist.Scope().Lookup(wname)
		if obj == nil {
			fmt.Printf("%-70s NO WRAPPER %s\n", e.name, wname)
			continue
		}
		var out []string
		walk(obj.Type(), nil, map[*types.Named]bool{}, &out)
		fmt.Printf("%-70s ns_paths=%d", e.name, len(out))
		if len(out) > 0 {
			fmt.Printf("  e.g. %s", out[0])
		}
		fmt.Println()
	}
	var out []string
	walk(wfs.Scope().Lookup("ListWorkflowExecutionsResponse").Type(), nil, map[*types.Named]bool{}, &out)
	fmt.Println("ListWorkflowExecutionsResponse ns paths:", len(out), out)
	// HistoryEvent-level fields other than attributes
	out = nil
	he := hist.Scope().Lookup("HistoryEvent").Type().(*types.Named)
	st := he.Underlying().(*types.Struct)
	for i := 0; i < st.NumFields(); i++ {
		f := st.Field(i)
		if !f.Exported() || f.Name() == "Attributes" {
			continue
		}
		var o []string
		walk(f.Type(), []string{"HistoryEvent." + f.Name()}, map[*types.Named]bool{he: true}, &o)
		fmt.Println("HistoryEvent."+f.Name(), len(o), o)
	}
}
