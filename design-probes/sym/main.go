package main

import (
	"fmt"
	"go/constant"
	"go/types"
	"os"
	"sort"
	"strings"

	"golang.org/x/tools/go/packages"
	"golang.org/x/tools/go/ssa"
	"golang.org/x/tools/go/ssa/ssautil"
)

// ---- terms
type Term interface{ String() string }
type Atom string

func (a Atom) String() string { return string(a) }

type Addr struct {
	cell int
	path string // ".3.1"
}

func (a Addr) String() string { return fmt.Sprintf("&cell%d%s", a.cell, a.path) }

type Tuple []Term

func (t Tuple) String() string {
	var s []string
	for _, x := range t {
		s = append(s, x.String())
	}
	return "(" + strings.Join(s, ", ") + ")"
}

type StructT struct {
	typ    *types.Struct
	name   string
	fields map[int]Term
}

func (s *StructT) String() string {
	var keys []int
	for k := range s.fields {
		keys = append(keys, k)
	}
	sort.Ints(keys)
	var parts []string
	for _, k := range keys {
		parts = append(parts, s.typ.Field(k).Name()+":"+s.fields[k].String())
	}
	return s.name + "{" + strings.Join(parts, "; ") + "}"
}

type Closure struct {
	fn    *ssa.Function
	binds []Term
}

func (c *Closure) String() string { return "closure:" + c.fn.Name() }

type Set []Term

func (s Set) String() string {
	var p []string
	for _, x := range s {
		p = append(p, x.String())
	}
	sort.Strings(p)
	return "phi{" + strings.Join(p, " | ") + "}"
}

func join(a, b Term) Term {
	if a == nil {
		return b
	}
	if b == nil {
		return a
	}
	if a.String() == b.String() {
		return a
	}
	return Set{a, b}
}

// ---- evaluator
type Eval struct {
	heap    map[string]Term // key: cell+path
	ncell   int
	calls   []string
	inPkg   map[*types.Package]bool
	depth   int
	callLog []CallRec
}
type CallRec struct {
	callee string
	args   []Term
	stack  string
}

type Frame struct {
	fn     *ssa.Function
	vals   map[ssa.Value]Term
	ret    Term
	stack  string
	cells  map[*ssa.Alloc]int
}

func (e *Eval) run(fn *ssa.Function, params []Term, free []Term, stack string) Term {
	if e.depth > 8 || fn.Blocks == nil {
		return Atom("call:" + fn.String())
	}
	e.depth++
	defer func() { e.depth-- }()
	fr := &Frame{fn: fn, vals: map[ssa.Value]Term{}, stack: stack + "/" + fn.Name(), cells: map[*ssa.Alloc]int{}}
	for i, p := range fn.Params {
		if i < len(params) {
			fr.vals[p] = params[i]
		} else {
			fr.vals[p] = Atom("param:" + p.Name())
		}
	}
	for i, fv := range fn.FreeVars {
		if i < len(free) {
			fr.vals[fv] = free[i]
		}
	}
	// execute reachable blocks in dominator preorder, pruning constant branches
	live := map[*ssa.BasicBlock]bool{fn.Blocks[0]: true}
	for _, b := range fn.DomPreorder() {
		if !live[b] {
			continue
		}
		for _, ins := range b.Instrs {
			e.exec(fr, ins)
		}
		if len(b.Instrs) > 0 {
			if iff, ok := b.Instrs[len(b.Instrs)-1].(*ssa.If); ok {
				c := e.val(fr, iff.Cond).String()
				switch c {
				case "const:true":
					live[b.Succs[0]] = true
					continue
				case "const:false":
					live[b.Succs[1]] = true
					continue
				}
			}
		}
		for _, s := range b.Succs {
			live[s] = true
		}
	}
	if fr.ret == nil {
		return Atom("void")
	}
	return fr.ret
}

func (e *Eval) val(fr *Frame, v ssa.Value) Term {
	if t, ok := fr.vals[v]; ok {
		return t
	}
	switch x := v.(type) {
	case *ssa.Const:
		if x.Value == nil {
			return Atom("const:nil")
		}
		if x.Value.Kind() == constant.Bool {
			return Atom("const:" + x.Value.String())
		}
		return Atom("const:" + x.Value.String())
	case *ssa.Function:
		return &Closure{fn: x}
	case *ssa.Global:
		return Atom("global:" + x.Name())
	case *ssa.Builtin:
		return Atom("builtin:" + x.Name())
	}
	return Atom("?" + v.Name())
}

func fieldName(t types.Type, i int) string {
	if p, ok := t.Underlying().(*types.Pointer); ok {
		t = p.Elem()
	}
	if s, ok := t.Underlying().(*types.Struct); ok {
		return s.Field(i).Name()
	}
	return fmt.Sprint(i)
}

func (e *Eval) load(a Addr, t types.Type) Term {
	key := fmt.Sprintf("%d%s", a.cell, a.path)
	if v, ok := e.heap[key]; ok {
		return v
	}
	// struct assembled from sub-fields?
	if st, ok := t.Underlying().(*types.Struct); ok {
		s := &StructT{typ: st, name: types.TypeString(t, func(p *types.Package) string { return "" }), fields: map[int]Term{}}
		found := false
		for i := 0; i < st.NumFields(); i++ {
			sub := Addr{a.cell, a.path + "." + st.Field(i).Name()}
			k2 := fmt.Sprintf("%d%s", sub.cell, sub.path)
			if v, ok := e.heap[k2]; ok {
				s.fields[i] = v
				found = true
			} else if _, isStruct := st.Field(i).Type().Underlying().(*types.Struct); isStruct {
				if sv, ok := e.load(sub, st.Field(i).Type()).(*StructT); ok && len(sv.fields) > 0 {
					s.fields[i] = sv
					found = true
				}
			}
		}
		if found {
			return s
		}
	}
	return Atom(fmt.Sprintf("uninit(cell%d%s)", a.cell, a.path))
}

func (e *Eval) store(a Addr, v Term) {
	key := fmt.Sprintf("%d%s", a.cell, a.path)
	if sv, ok := v.(*StructT); ok {
		for i, f := range sv.fields {
			e.store(Addr{a.cell, a.path + "." + sv.typ.Field(i).Name()}, f)
		}
		return
	}
	e.heap[key] = join(e.heap[key], v)
}

func (e *Eval) exec(fr *Frame, ins ssa.Instruction) {
	switch x := ins.(type) {
	case *ssa.Alloc:
		e.ncell++
		fr.vals[x] = Addr{cell: e.ncell}
	case *ssa.Store:
		if a, ok := e.val(fr, x.Addr).(Addr); ok {
			e.store(a, e.val(fr, x.Val))
		}
	case *ssa.FieldAddr:
		base := e.val(fr, x.X)
		fn := fieldName(x.X.Type(), x.Field)
		if a, ok := base.(Addr); ok {
			fr.vals[x] = Addr{a.cell, a.path + "." + fn}
		} else {
			fr.vals[x] = Atom("&" + strings.TrimPrefix(base.String(), "&") + "." + fn)
		}
	case *ssa.Field:
		base := e.val(fr, x.X)
		if s, ok := base.(*StructT); ok {
			if f, ok := s.fields[x.Field]; ok {
				fr.vals[x] = f
				return
			}
		}
		fr.vals[x] = Atom(base.String() + "." + fieldName(x.X.Type(), x.Field))
	case *ssa.UnOp:
		if x.Op.String() == "*" {
			a := e.val(fr, x.X)
			if ad, ok := a.(Addr); ok {
				fr.vals[x] = e.load(ad, x.Type())
			} else {
				fr.vals[x] = Atom(strings.TrimPrefix(a.String(), "&"))
			}
			return
		}
		fr.vals[x] = Atom(x.Op.String() + e.val(fr, x.X).String())
	case *ssa.Extract:
		t := e.val(fr, x.Tuple)
		if tp, ok := t.(Tuple); ok && x.Index < len(tp) {
			fr.vals[x] = tp[x.Index]
		} else {
			fr.vals[x] = Atom(fmt.Sprintf("%s#%d", t, x.Index))
		}
	case *ssa.MakeInterface:
		fr.vals[x] = e.val(fr, x.X)
	case *ssa.ChangeType:
		fr.vals[x] = e.val(fr, x.X)
	case *ssa.ChangeInterface:
		fr.vals[x] = e.val(fr, x.X)
	case *ssa.Convert:
		fr.vals[x] = e.val(fr, x.X)
	case *ssa.MakeClosure:
		var b []Term
		for _, bv := range x.Bindings {
			b = append(b, e.val(fr, bv))
		}
		fr.vals[x] = &Closure{fn: x.Fn.(*ssa.Function), binds: b}
	case *ssa.Phi:
		var r Term
		for _, ed := range x.Edges {
			if t, ok := fr.vals[ed]; ok {
				r = join(r, t)
			} else if c, ok := ed.(*ssa.Const); ok {
				r = join(r, e.val(fr, c))
			}
		}
		if r == nil {
			r = Atom("phi?")
		}
		fr.vals[x] = r
	case *ssa.BinOp:
		fr.vals[x] = Atom("(" + e.val(fr, x.X).String() + x.Op.String() + e.val(fr, x.Y).String() + ")")
	case *ssa.Call:
		fr.vals[x] = e.call(fr, x.Common())
	case *ssa.Return:
		var r Term
		if len(x.Results) == 1 {
			r = e.val(fr, x.Results[0])
		} else if len(x.Results) > 1 {
			var tp Tuple
			for _, rv := range x.Results {
				tp = append(tp, e.val(fr, rv))
			}
			r = tp
		}
		if tp, ok := r.(Tuple); ok {
			if old, ok2 := fr.ret.(Tuple); ok2 && len(old) == len(tp) {
				var nt Tuple
				for i := range tp {
					nt = append(nt, join(old[i], tp[i]))
				}
				fr.ret = nt
				return
			}
		}
		// ignore error-only early returns (nil result) when joining
		fr.ret = join(fr.ret, r)
	}
}

func (e *Eval) call(fr *Frame, c *ssa.CallCommon) Term {
	var args []Term
	for _, a := range c.Args {
		args = append(args, e.val(fr, a))
	}
	if c.IsInvoke() {
		recv := e.val(fr, c.Value)
		name := c.Method.Name()
		e.callLog = append(e.callLog, CallRec{"invoke:" + name, append([]Term{recv}, args...), fr.stack})
		if name == "Inverse" {
			return Atom("Inv(" + recv.String() + ")")
		}
		return Atom(name + "(" + recv.String() + ")")
	}
	var callee *ssa.Function
	var free []Term
	switch v := c.Value.(type) {
	case *ssa.Function:
		callee = v
	default:
		if cl, ok := e.val(fr, c.Value).(*Closure); ok {
			callee = cl.fn
			free = cl.binds
		}
	}
	if callee == nil {
		return Atom("dyncall(" + e.val(fr, c.Value).String() + ")")
	}
	e.callLog = append(e.callLog, CallRec{callee.String(), args, fr.stack})
	if callee.Name() == "Inverse" {
		return Atom("Inv(" + args[0].String() + ")")
	}
	if callee.Pkg != nil && e.inPkg[callee.Pkg.Pkg] && callee.Blocks != nil {
		return e.run(callee, args, free, fr.stack)
	}
	var as []string
	for _, a := range args {
		as = append(as, a.String())
	}
	short := callee.Name()
	return Atom(short + "(" + strings.Join(as, ", ") + ")")
}

func main() {
	cfg := &packages.Config{Mode: packages.NeedName | packages.NeedFiles | packages.NeedCompiledGoFiles | packages.NeedImports | packages.NeedTypes | packages.NeedTypesSizes | packages.NeedSyntax | packages.NeedTypesInfo | packages.NeedModule, Dir: "/repo"}
	pkgs, err := packages.Load(cfg, "./proxy")
	if err != nil {
		panic(err)
	}
	if packages.PrintErrors(pkgs) > 0 {
		os.Exit(1)
	}
	prog, spkgs := ssautil.Packages(pkgs, ssa.InstantiateGenerics)
	_ = prog
	sp := spkgs[0]
	sp.Build()
	e := &Eval{heap: map[string]Term{}, inPkg: map[*types.Package]bool{sp.Pkg: true}}
	fn := sp.Func("NewClusterConnection")
	e.run(fn, []Term{Atom("lifetime"), Atom("connConfig"), Atom("logProvider")}, nil, "")
	show := map[string]bool{"createServer": true, "NewNamespaceNameTranslator": true, "NewSearchAttributeTranslator": true, "NewAccessControlInterceptor": true, "NewAdminServiceProxyServer": true, "ChainUnaryInterceptor": true, "ChainStreamInterceptor": true, "NewWorkflowServiceProxyServer": true, "NewGRPCMuxManager": true}
	for _, c := range e.callLog {
		parts := strings.Split(c.callee, ".")
		short := parts[len(parts)-1]
		if !show[short] {
			continue
		}
		fmt.Println("CALL", short, " stack:", c.stack)
		for i, a := range c.args {
			s := a.String()
			if len(s) > 700 {
				s = s[:700] + "..."
			}
			fmt.Printf("   arg%d = %s\n", i, s)
		}
	}
}
