package main

import (
	"fmt"
	"go/types"
	"os"
	"sort"
	"strings"

	"golang.org/x/tools/go/packages"
)

type walker struct {
	allPkgs map[string]*packages.Package
	impls   map[*types.Named][]*types.Named // interface -> impl
	hits    map[string]map[string]bool       // category -> "Struct.Field type" -> true
	samples map[string]string
	npaths  int
}

func (w *walker) implsOf(iface *types.Named) []*types.Named {
	if r, ok := w.impls[iface]; ok {
		return r
	}
	var res []*types.Named
	pkg := iface.Obj().Pkg()
	it := iface.Underlying().(*types.Interface)
	for _, name := range pkg.Scope().Names() {
		tn, ok := pkg.Scope().Lookup(name).(*types.TypeName)
		if !ok {
			continue
		}
		n, ok := tn.Type().(*types.Named)
		if !ok {
			continue
		}
		if _, isStruct := n.Underlying().(*types.Struct); !isStruct {
			continue
		}
		if types.Implements(types.NewPointer(n), it) {
			res = append(res, n)
		}
	}
	w.impls[iface] = res
	return res
}

func (w *walker) record(cat, key, path string) {
	if w.hits[cat] == nil {
		w.hits[cat] = map[string]bool{}
	}
	if !w.hits[cat][key] {
		w.hits[cat][key] = true
		w.samples[cat+"|"+key] = path
	}
}

func (w *walker) walk(t types.Type, path []string, onpath map[*types.Named]bool, parentStruct *types.Named, fieldName string) {
	switch tt := t.(type) {
	case *types.Pointer:
		w.walk(tt.Elem(), path, onpath, parentStruct, fieldName)
	case *types.Slice:
		w.walk(tt.Elem(), append(path, "[]"), onpath, nil, fieldName)
	case *types.Map:
		w.walk(tt.Elem(), append(path, "{}"), onpath, nil, fieldName)
	case *types.Named:
		if onpath[tt] {
			return
		}
		switch u := tt.Underlying().(type) {
		case *types.Struct:
			onpath[tt] = true
			defer delete(onpath, tt)
			for i := 0; i < u.NumFields(); i++ {
				f := u.Field(i)
				if !f.Exported() {
					continue
				}
				p := append(append([]string{}, path...), tt.Obj().Name()+"."+f.Name())
				w.npaths++
				ft := f.Type()
				fts := types.TypeString(ft, func(p *types.Package) string { return p.Name() })
				lname := strings.ToLower(f.Name())
				if b, ok := ft.(*types.Basic); ok && b.Kind() == types.String && strings.Contains(lname, "namespace") {
					w.record("nsstring", tt.Obj().Pkg().Name()+"."+tt.Obj().Name()+"."+f.Name(), strings.Join(p, "/"))
				}
				if strings.Contains(fts, "DataBlob") {
					w.record("datablob", tt.Obj().Pkg().Name()+"."+tt.Obj().Name()+"."+f.Name()+" "+fts, strings.Join(p, "/"))
				}
				if strings.Contains(fts, "SearchAttributes") || f.Name() == "SearchAttributes" || strings.Contains(lname, "searchattr") || strings.Contains(lname, "indexedfields") {
					w.record("sa", tt.Obj().Pkg().Name()+"."+tt.Obj().Name()+"."+f.Name()+" "+fts, strings.Join(p, "/"))
				}
				w.walk(ft, p, onpath, tt, f.Name())
			}
		case *types.Interface:
			if tt.Obj().Pkg() == nil {
				return
			}
			for _, impl := range w.implsOf(tt) {
				w.walk(impl, path, onpath, nil, fieldName)
			}
		}
	}
}

func main() {
	cfg := &packages.Config{Mode: packages.NeedName | packages.NeedTypes | packages.NeedImports | packages.NeedDeps, Dir: "/repo"}
	pkgs, err := packages.Load(cfg, "go.temporal.io/api/workflowservice/v1", "go.temporal.io/server/api/adminservice/v1")
	if err != nil {
		panic(err)
	}
	if packages.PrintErrors(pkgs) > 0 {
		os.Exit(1)
	}
	w := &walker{impls: map[*types.Named][]*types.Named{}, hits: map[string]map[string]bool{}, samples: map[string]string{}}
	for _, p := range pkgs {
		scope := p.Types.Scope()
		for _, name := range scope.Names() {
			if !(strings.HasSuffix(name, "Request") || strings.HasSuffix(name, "Response")) {
				continue
			}
			tn, ok := scope.Lookup(name).(*types.TypeName)
			if !ok {
				continue
			}
			n, ok := tn.Type().(*types.Named)
			if !ok {
				continue
			}
			if _, ok := n.Underlying().(*types.Struct); !ok {
				continue
			}
			w.walk(n, []string{p.Types.Name()}, map[*types.Named]bool{}, nil, "")
		}
	}
	fmt.Println("paths", w.npaths)
	for _, cat := range []string{"nsstring", "datablob", "sa"} {
		var keys []string
		for k := range w.hits[cat] {
			keys = append(keys, k)
		}
		sort.Strings(keys)
		fmt.Println("==", cat, len(keys))
		for _, k := range keys {
			fmt.Println("  ", k, "   e.g.", w.samples[cat+"|"+k])
		}
	}
}
