package main

import (
	"fmt"
	"go/types"
	"os"
	"sort"
	"strings"

	"golang.org/x/tools/go/packages"
)

var impls = map[*types.Named][]*types.Named{}

func implsOf(iface *types.Named) []*types.Named {
	if r, ok := impls[iface]; ok {
		return r
	}
	var res []*types.Named
	pkg := iface.Obj().Pkg()
	it := iface.Underlying().(*types.Interface)
	for _, name := range pkg.Scope().Names() {
		tn, ok := pkg.Scope().Lookup(name).(*types.TypeName)
		if !ok {
			continue
		}
		n, ok := tn.Type().(*types.Named)
		if !ok {
			continue
		}
		if _, isStruct := n.Underlying().(*types.Struct); !isStruct {
			continue
		}
		if types.Implements(types.NewPointer(n), it) {
			res = append(res, n)
		}
	}
	impls[iface] = res
	return res
}

var hits = map[string]bool{}

func walk(t types.Type, holder string, onpath map[*types.Named]bool) {
	switch tt := t.(type) {
	case *types.Pointer:
		walk(tt.Elem(), holder, onpath)
	case *types.Slice:
		walk(tt.Elem(), "slice-elem", onpath)
	case *types.Map:
		walk(tt.Elem(), "map-value", onpath)
	case *types.Named:
		name := tt.Obj().Name()
		if name == "NamespaceInfo" || name == "History" || name == "HistoryEvent" || name == "DataBlob" || name == "SearchAttributes" {
			hits[tt.Obj().Pkg().Name()+"."+name+" held as "+holder] = true
		}
		if onpath[tt] {
			return
		}
		switch u := tt.Underlying().(type) {
		case *types.Struct:
			onpath[tt] = true
			defer delete(onpath, tt)
			for i := 0; i < u.NumFields(); i++ {
				f := u.Field(i)
				if !f.Exported() {
					continue
				}
				h := "struct-field"
				if _, ok := f.Type().(*types.Slice); ok {
					h = "slice-elem"
				}
				if _, ok := f.Type().(*types.Map); ok {
					h = "map-value"
				}
				_ = h
				walk(f.Type(), "struct-field("+tt.Obj().Name()+"."+f.Name()+")", onpath)
			}
		case *types.Interface:
			if tt.Obj().Pkg() == nil {
				return
			}
			for _, impl := range implsOf(tt) {
				walk(impl, "iface", onpath)
			}
		}
	}
}

func main() {
	cfg := &packages.Config{Mode: packages.NeedName | packages.NeedTypes | packages.NeedImports | packages.NeedDeps, Dir: "/repo"}
	pkgs, err := packages.Load(cfg, "go.temporal.io/api/workflowservice/v1", "go.temporal.io/server/api/adminservice/v1")
	if err != nil {
		panic(err)
	}
	if packages.PrintErrors(pkgs) > 0 {
		os.Exit(1)
	}
	for _, p := range pkgs {
		scope := p.Types.Scope()
		for _, name := range scope.Names() {
			if !(strings.HasSuffix(name, "Request") || strings.HasSuffix(name, "Response")) {
				continue
			}
			if tn, ok := scope.Lookup(name).(*types.TypeName); ok {
				walk(tn.Type(), "root", map[*types.Named]bool{})
			}
		}
	}
	var keys []string
	for k := range hits {
		keys = append(keys, k)
	}
	sort.Strings(keys)
	for _, k := range keys {
		if strings.Contains(k, "slice-elem") || strings.Contains(k, "map-value") || strings.Contains(k, "NamespaceInfo") || strings.Contains(k, ".History ") {
			fmt.Println(k)
		}
	}
}
