#!/bin/bash
# usage: run.sh <git-ref-of-/repo>     runs the in-package demonstration of K6 in a scratch worktree
REF="${1:-HEAD}"
D=$(mktemp -d /tmp/demo04.XXXX)
git -C /repo worktree add --detach "$D/wt" "$REF" >/dev/null 2>&1 || { echo "worktree failed"; exit 2; }
HERE="$(cd "$(dirname "$0")" && pwd)"
cp "$HERE/demo04_internal_test.go.txt" "$D/wt/proxy/zz_demo04_internal_test.go"
(cd "$D/wt" && GOFLAGS=-mod=mod GOPROXY=off go test -mod=mod -count=1 -timeout 90s -v -run "${DEMO_RUN:-TestK6_}" ./proxy/ 2>&1 | grep -vE "^20|^\s*go.temporal" | tail -${DEMO_LINES:-25})
git -C /repo worktree remove --force "$D/wt"; rm -rf "$D"
