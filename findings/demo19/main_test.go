package demo19

import (
	"crypto/ecdsa"
	"crypto/elliptic"
	"crypto/rand"
	"crypto/tls"
	"crypto/x509"
	"crypto/x509/pkix"
	"encoding/pem"
	"math/big"
	"net"
	"os"
	"path/filepath"
	"testing"
	"time"

	"go.temporal.io/server/common/log"

	"github.com/temporalio/s2s-proxy/encryption"
)

func mkCert(t *testing.T, cn string, isCA bool, parent *x509.Certificate, parentKey *ecdsa.PrivateKey) (*x509.Certificate, *ecdsa.PrivateKey, []byte, []byte) {
	key, _ := ecdsa.GenerateKey(elliptic.P256(), rand.Reader)
	tmpl := &x509.Certificate{SerialNumber: big.NewInt(time.Now().UnixNano()), Subject: pkix.Name{CommonName: cn}, NotBefore: time.Now().Add(-time.Hour), NotAfter: time.Now().Add(time.Hour),
		KeyUsage: x509.KeyUsageDigitalSignature | x509.KeyUsageCertSign, ExtKeyUsage: []x509.ExtKeyUsage{x509.ExtKeyUsageClientAuth, x509.ExtKeyUsageServerAuth}, IsCA: isCA, BasicConstraintsValid: true, DNSNames: []string{cn}}
	if parent == nil {
		parent, parentKey = tmpl, key
	}
	der, err := x509.CreateCertificate(rand.Reader, tmpl, parent, &key.PublicKey, parentKey)
	if err != nil {
		t.Fatal(err)
	}
	c, _ := x509.ParseCertificate(der)
	kb, _ := x509.MarshalECPrivateKey(key)
	return c, key, pem.EncodeToMemory(&pem.Block{Type: "CERTIFICATE", Bytes: der}), pem.EncodeToMemory(&pem.Block{Type: "EC PRIVATE KEY", Bytes: kb})
}

func TestSelfSignedClientAccepted(t *testing.T) {
	dir := t.TempDir()
	ca, caKey, caPEM, _ := mkCert(t, "the-ca", true, nil, nil)
	_, _, srvPEM, srvKeyPEM := mkCert(t, "server", false, ca, caKey)
	_, _, roguePEM, rogueKeyPEM := mkCert(t, "rogue", false, nil, nil) // self-signed, unrelated to the CA
	w := func(n string, b []byte) string { p := filepath.Join(dir, n); os.WriteFile(p, b, 0600); return p }
	cfg, err := encryption.GetServerTLSConfig(encryption.TLSConfig{CertificatePath: w("s.pem", srvPEM), KeyPath: w("s.key", srvKeyPEM), RemoteCAPath: w("ca.pem", caPEM)}, log.NewNoopLogger())
	if err != nil {
		t.Fatal(err)
	}
	ln, _ := tls.Listen("tcp", "127.0.0.1:0", cfg)
	defer ln.Close()
	res := make(chan error, 1)
	go func() {
		c, err := ln.Accept()
		if err != nil {
			res <- err
			return
		}
		defer c.Close()
		res <- c.(*tls.Conn).Handshake()
	}()
	rogue, _ := tls.X509KeyPair(roguePEM, rogueKeyPEM)
	conn, err := tls.Dial("tcp", ln.Addr().String(), &tls.Config{InsecureSkipVerify: true, GetClientCertificate: func(*tls.CertificateRequestInfo) (*tls.Certificate, error) { return &rogue, nil }})
	if err == nil {
		conn.Handshake()
		defer conn.Close()
	}
	serverErr := <-res
	t.Logf("client dial err=%v, server handshake err=%v", err, serverErr)
	if serverErr == nil {
		t.Errorf("listener completed a handshake with a self-signed client certificate that does not chain to the configured CA")
	}
	_ = net.IPv4zero
}
