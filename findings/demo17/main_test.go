package demo17

import (
	"context"
	"testing"

	commonpb "go.temporal.io/api/common/v1"
	enumspb "go.temporal.io/api/enums/v1"
	"go.temporal.io/server/api/adminservice/v1"
	"go.temporal.io/server/common/log"
	"google.golang.org/grpc"

	"github.com/temporalio/s2s-proxy/interceptor"
	common122 "github.com/temporalio/s2s-proxy/proto/1_22/api/common/v1"
	enums122 "github.com/temporalio/s2s-proxy/proto/1_22/api/enums/v1"
	history122 "github.com/temporalio/s2s-proxy/proto/1_22/api/history/v1"
	serialization122 "github.com/temporalio/s2s-proxy/proto/1_22/server/common/persistence/serialization"
)

// A history blob whose invalid UTF-8 sits OUTSIDE a failure message (here: the identity string) cannot be
// repaired. The codec path reports "nothing was repaired"; the blob path returns no error and treats the
// blob as examined: the namespace inside it is neither translated nor access-checked.
func badBlob(t *testing.T) *commonpb.DataBlob {
	ev := &history122.HistoryEvent{
		EventId:   1,
		EventType: enums122.EVENT_TYPE_CHILD_WORKFLOW_EXECUTION_STARTED,
		Attributes: &history122.HistoryEvent_ChildWorkflowExecutionStartedEventAttributes{
			ChildWorkflowExecutionStartedEventAttributes: &history122.ChildWorkflowExecutionStartedEventAttributes{
				Namespace:    "forbidden-ns",
				WorkflowType: &common122.WorkflowType{Name: "bad\xff\xfename"},
			},
		},
	}
	b, err := serialization122.NewSerializer().SerializeEvents([]*history122.HistoryEvent{ev}, enums122.ENCODING_TYPE_PROTO3)
	if err != nil {
		t.Fatal(err)
	}
	return &commonpb.DataBlob{EncodingType: enumspb.ENCODING_TYPE_PROTO3, Data: b.Data}
}

func TestUnrepairableBlobIsRefusedByNamespaceACL(t *testing.T) {
	acl := interceptor.NewAccessControlInterceptor(log.NewNoopLogger(), nil, []string{"allowed-ns"})
	req := &adminservice.ImportWorkflowExecutionRequest{Namespace: "allowed-ns", HistoryBatches: []*commonpb.DataBlob{badBlob(t)}}
	reached := false
	_, err := acl.Intercept(context.Background(), req, &grpc.UnaryServerInfo{FullMethod: "/temporal.server.api.adminservice.v1.AdminService/ImportWorkflowExecution"},
		func(ctx context.Context, req any) (any, error) { reached = true; return nil, nil })
	t.Logf("reached handler=%v err=%v", reached, err)
	if reached {
		t.Errorf("request whose history blob could not be decoded (and names forbidden-ns) reached the local cluster without any error")
	}
}

func TestUnrepairableBlobIsReportedByTranslator(t *testing.T) {
	tr := interceptor.NewNamespaceNameTranslator(log.NewNoopLogger(), map[string]string{"forbidden-ns": "x"}, map[string]string{"x": "forbidden-ns"})
	req := &adminservice.ImportWorkflowExecutionRequest{HistoryBatches: []*commonpb.DataBlob{badBlob(t)}}
	changed, err := tr.TranslateRequest(req)
	t.Logf("changed=%v err=%v", changed, err)
	if err == nil {
		t.Errorf("a blob that failed to decode and could not be repaired was passed on without an error")
	}
}
