package demo12

import (
	"testing"

	commonpb "go.temporal.io/api/common/v1"
	enumspb "go.temporal.io/api/enums/v1"
	failurepb "go.temporal.io/api/failure/v1"
	historypb "go.temporal.io/api/history/v1"
	"go.temporal.io/api/workflowservice/v1"
	"go.temporal.io/server/common/log"
	"go.temporal.io/server/common/persistence/serialization"

	"github.com/temporalio/s2s-proxy/interceptor"
)

func failedEvent() *historypb.HistoryEvent {
	return &historypb.HistoryEvent{
		EventId:   5,
		EventType: enumspb.EVENT_TYPE_WORKFLOW_EXECUTION_FAILED,
		Attributes: &historypb.HistoryEvent_WorkflowExecutionFailedEventAttributes{
			WorkflowExecutionFailedEventAttributes: &historypb.WorkflowExecutionFailedEventAttributes{
				Failure: &failurepb.Failure{
					Message: "child failed",
					FailureInfo: &failurepb.Failure_ChildWorkflowExecutionFailureInfo{
						ChildWorkflowExecutionFailureInfo: &failurepb.ChildWorkflowExecutionFailureInfo{Namespace: "local-ns"},
					},
				},
			},
		},
	}
}

func TestSkipList(t *testing.T) {
	tr := interceptor.NewNamespaceNameTranslator(log.NewNoopLogger(), map[string]string{"local-ns": "remote-ns"}, map[string]string{"remote-ns": "local-ns"})
	resp := &workflowservice.GetWorkflowExecutionHistoryResponse{History: &historypb.History{Events: []*historypb.HistoryEvent{failedEvent()}}}
	changed, err := tr.TranslateRequest(resp)
	got := resp.History.Events[0].GetWorkflowExecutionFailedEventAttributes().Failure.GetChildWorkflowExecutionFailureInfo().Namespace
	t.Logf("History path: changed=%v err=%v namespace=%q", changed, err, got)
	if got != "remote-ns" {
		t.Errorf("namespace in failure chain of skippable event NOT translated")
	}
}

func TestRawHistory(t *testing.T) {
	tr := interceptor.NewNamespaceNameTranslator(log.NewNoopLogger(), map[string]string{"local-ns": "remote-ns"}, map[string]string{"remote-ns": "local-ns"})
	ev := &historypb.HistoryEvent{EventId: 1, EventType: enumspb.EVENT_TYPE_CHILD_WORKFLOW_EXECUTION_STARTED,
		Attributes: &historypb.HistoryEvent_ChildWorkflowExecutionStartedEventAttributes{ChildWorkflowExecutionStartedEventAttributes: &historypb.ChildWorkflowExecutionStartedEventAttributes{Namespace: "local-ns"}}}
	s := serialization.NewSerializer()
	blob, err := s.SerializeEvents([]*historypb.HistoryEvent{ev})
	if err != nil {
		t.Fatal(err)
	}
	resp := &workflowservice.GetWorkflowExecutionHistoryResponse{RawHistory: []*commonpb.DataBlob{blob}}
	changed, err := tr.TranslateRequest(resp)
	evs, _ := s.DeserializeEvents(resp.RawHistory[0])
	got := evs[0].GetChildWorkflowExecutionStartedEventAttributes().Namespace
	t.Logf("RawHistory path: changed=%v err=%v namespace=%q", changed, err, got)
	if got != "remote-ns" {
		t.Errorf("namespace inside RawHistory blob NOT translated")
	}
}
