package demo20

import (
	"testing"
	"time"

	"go.temporal.io/server/common/log"

	"github.com/temporalio/s2s-proxy/proxy"
)

func TestOverflow(t *testing.T) {
	o := proxy.NewReplicationStreamObserver(log.NewTestLogger())
	func() {
		defer func() { t.Logf("recovered: %v", recover()) }()
		o.ReportStreamValue(300000000, 1)
	}()
	done := make(chan struct{})
	go func() { o.ReportStreamValue(1, 1); close(done) }()
	select {
	case <-done:
		t.Log("second call returned")
	case <-time.After(2 * time.Second):
		t.Fatal("second call blocked: lock left held")
	}
}
