#!/bin/bash
REF="${1:-HEAD}"
D=$(mktemp -d /tmp/demo05.XXXX)
git -C /repo worktree add --detach "$D/wt" "$REF" >/dev/null 2>&1 || { echo "worktree failed"; exit 2; }
HERE="$(cd "$(dirname "$0")" && pwd)"
cp "$HERE/demo05_internal_test.go.txt" "$D/wt/proxy/zz_demo05_internal_test.go"
(cd "$D/wt" && go test -mod=mod -count=1 -run 'TestGappedAppend' ./proxy/ 2>&1 | tail -12)
git -C /repo worktree remove --force "$D/wt"; rm -rf "$D"
