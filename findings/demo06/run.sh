#!/bin/bash
# usage: run.sh <git-ref-of-/repo>    runs the in-package demonstration in a scratch worktree
REF="${1:-HEAD}"
D=$(mktemp -d /tmp/demo06.XXXX)
git -C /repo worktree add --detach "$D/wt" "$REF" >/dev/null 2>&1 || { echo "worktree failed"; exit 2; }
HERE="$(cd "$(dirname "$0")" && pwd)"
cp "$HERE/demo06_internal_test.go.txt" "$D/wt/proxy/zz_demo06_internal_test.go"
(cd "$D/wt" && go test -mod=mod -count=1 -run 'TestF8_' ./proxy/ 2>&1 | grep -v "^20\|^\s*go.temporal\|^\s*/\|^github.com" | tail -20)
git -C /repo worktree remove --force "$D/wt"; rm -rf "$D"
