#!/bin/bash
# usage: run.sh <git-ref-of-/repo> prefix|fixed     runs the in-package demonstrations in a scratch worktree
REF="${1:-HEAD}"; SHIM="${2:-fixed}"
D=$(mktemp -d /tmp/demo08.XXXX)
git -C /repo worktree add --detach "$D/wt" "$REF" >/dev/null 2>&1 || { echo "worktree failed"; exit 2; }
HERE="$(cd "$(dirname "$0")" && pwd)"
cp "$HERE/demo08_internal_test.go.txt" "$D/wt/proxy/zz_demo08_internal_test.go"; cp "$HERE/demo08b_internal_test.go.txt" "$D/wt/proxy/zz_demo08b_internal_test.go"
cp "$HERE/shims_$SHIM.go.txt" "$D/wt/proxy/zz_demo08_shims_test.go"
(cd "$D/wt" && go test -mod=mod -count=1 -run "${DEMO_RUN:-TestF5_|TestF6_|TestK|TestF12_}" ./proxy/ 2>&1 | grep -v "^20\|^\s*go.temporal\|^\s*/\|^github.com" | tail -40)
git -C /repo worktree remove --force "$D/wt"; rm -rf "$D"
