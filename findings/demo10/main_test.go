package demo10

import (
	"context"
	"errors"
	"net"
	"sync"
	"sync/atomic"
	"testing"
	"time"

	"github.com/hashicorp/yamux"
	"go.temporal.io/server/common/log"

	"github.com/temporalio/s2s-proxy/transport/mux"
	"github.com/temporalio/s2s-proxy/transport/mux/session"
)

type trackedConn struct {
	net.Conn
	closed atomic.Bool
}

func (c *trackedConn) Close() error { c.closed.Store(true); return c.Conn.Close() }

type fakeProvider struct {
	mu    sync.Mutex
	conns []*trackedConn
	peers []net.Conn
}

func (p *fakeProvider) NewConnection() (net.Conn, error) {
	a, b := net.Pipe()
	c := &trackedConn{Conn: a}
	p.mu.Lock()
	p.conns = append(p.conns, c)
	p.peers = append(p.peers, b)
	p.mu.Unlock()
	return c, nil
}
func (p *fakeProvider) CloseCh() <-chan struct{} { ch := make(chan struct{}); close(ch); return ch }
func (p *fakeProvider) Address() string          { return "fake" }

// A failing sessionFn (yamux refuses the configuration) must not leak the freshly dialled connection.
func TestSessionFnErrorClosesConnection(t *testing.T) {
	ctx, cancel := context.WithCancel(context.Background())
	defer cancel()
	fp := &fakeProvider{}
	pv := mux.NewMuxProvider(ctx, "demo", fp, func(net.Conn) (*yamux.Session, error) { return nil, errors.New("bad yamux config") }, 1,
		func(*yamux.Session, net.Conn) {}, []string{"a", "b", "c"}, log.NewNoopLogger())
	pv.Start()
	deadline := time.Now().Add(3 * time.Second)
	for time.Now().Before(deadline) {
		fp.mu.Lock()
		n := len(fp.conns)
		fp.mu.Unlock()
		if n >= 3 {
			break
		}
		time.Sleep(5 * time.Millisecond)
	}
	cancel()
	fp.mu.Lock()
	defer fp.mu.Unlock()
	if len(fp.conns) < 3 {
		t.Fatalf("loop did not retry: %d connections", len(fp.conns))
	}
	leaked := 0
	for _, c := range fp.conns[:2] {
		if !c.closed.Load() {
			leaked++
		}
	}
	t.Logf("%d connections dialled, %d of the first 2 never closed", len(fp.conns), leaked)
	if leaked > 0 {
		t.Errorf("connections whose yamux setup failed were dropped without Close")
	}
}

// A session handed to the manager after cancellation (shutdown racing a successful dial) must be closed.
func TestAddConnectionAfterShutdownClosesSession(t *testing.T) {
	ctx, cancel := context.WithCancel(context.Background())
	var add mux.AddNewMux
	_, err := mux.NewCustomMultiMuxManager(ctx, "demo", func(cb mux.AddNewMux, _ context.Context) (mux.MuxProvider, error) {
		add = cb
		return mux.NewMuxProvider(ctx, "demo", &fakeProvider{}, nil, 1, cb, []string{"a", "b", "c"}, log.NewNoopLogger()), nil
	}, []session.StartManagedComponentFn{}, nil, log.NewNoopLogger())
	if err != nil {
		t.Fatal(err)
	}
	a, b := net.Pipe()
	defer b.Close()
	go func() { _, _ = yamux.Client(b, nil) }()
	sess, err := yamux.Server(a, nil)
	if err != nil {
		t.Fatal(err)
	}
	tc := &trackedConn{Conn: a}
	cancel()
	time.Sleep(50 * time.Millisecond)
	add(sess, tc)
	time.Sleep(100 * time.Millisecond)
	t.Logf("after AddConnection post-shutdown: session closed=%v conn closed=%v", sess.IsClosed(), tc.closed.Load())
	if !sess.IsClosed() || !tc.closed.Load() {
		t.Errorf("session/connection handed over during shutdown were neither managed nor closed")
	}
	_ = sess.Close()
}
