module demo10

go 1.26.4

require (
	github.com/gogo/protobuf v1.3.2
	github.com/gogo/status v1.1.1
	github.com/golang/mock v1.7.0-rc.1
	github.com/grpc-ecosystem/go-grpc-middleware/providers/prometheus v1.1.0
	github.com/hashicorp/memberlist v0.5.1
	github.com/hashicorp/yamux v0.1.2
	github.com/keilerkonzept/visit v1.1.1
	github.com/pkg/errors v0.9.1
	github.com/prometheus/client_golang v1.23.2
	github.com/stretchr/testify v1.11.1
	github.com/urfave/cli/v2 v2.27.7
	go.temporal.io/api v1.62.8
	go.temporal.io/server v1.31.2
	go.uber.org/fx v1.24.0
	go.uber.org/mock v0.6.0
	golang.org/x/exp v0.0.0-20260410095643-746e56fc9e2f
	golang.org/x/sync v0.20.0
	golang.org/x/text v0.37.0
	google.golang.org/genproto/googleapis/api v0.0.0-20260420184626-e10c466a9529
	google.golang.org/grpc v1.80.0
	google.golang.org/protobuf v1.36.11
	gopkg.in/yaml.v3 v3.0.1
	helm.sh/helm/v4 v4.1.0
)

require (
	cel.dev/expr v0.25.1 // indirect
	cloud.google.com/go v0.123.0 // indirect
	cloud.google.com/go/auth v0.20.0 // indirect
	cloud.google.com/go/auth/oauth2adapt v0.2.8 // indirect
	cloud.google.com/go/compute/metadata v0.9.0 // indirect
	cloud.google.com/go/iam v1.9.0 // indirect
	cloud.google.com/go/longrunning v0.11.0 // indirect
	cloud.google.com/go/monitoring v1.27.0 // indirect
	cloud.google.com/go/run v1.19.0 // indirect
	cloud.google.com/go/storage v1.62.1 // indirect
	dario.cat/mergo v1.0.2 // indirect
	filippo.io/edwards25519 v1.2.0 // indirect
	github.com/GoogleCloudPlatform/opentelemetry-operations-go/detectors/gcp v1.32.0 // indirect
	github.com/GoogleCloudPlatform/opentelemetry-operations-go/exporter/metric v0.56.0 // indirect
	github.com/GoogleCloudPlatform/opentelemetry-operations-go/internal/resourcemapping v0.56.0 // indirect
	github.com/Masterminds/goutils v1.1.1 // indirect
	github.com/Masterminds/semver/v3 v3.4.0 // indirect
	github.com/Masterminds/sprig/v3 v3.3.0 // indirect
	github.com/apache/thrift v0.23.0 // indirect
	github.com/armon/go-metrics v0.0.0-20180917152333-f0300d1749da // indirect
	github.com/aws/aws-sdk-go-v2 v1.41.6 // indirect
	github.com/aws/aws-sdk-go-v2/aws/protocol/eventstream v1.7.9 // indirect
	github.com/aws/aws-sdk-go-v2/config v1.32.16 // indirect
	github.com/aws/aws-sdk-go-v2/credentials v1.19.15 // indirect
	github.com/aws/aws-sdk-go-v2/feature/ec2/imds v1.18.22 // indirect
	github.com/aws/aws-sdk-go-v2/internal/configsources v1.4.22 // indirect
	github.com/aws/aws-sdk-go-v2/internal/endpoints/v2 v2.7.22 // indirect
	github.com/aws/aws-sdk-go-v2/internal/v4a v1.4.23 // indirect
	github.com/aws/aws-sdk-go-v2/service/ecs v1.78.1 // indirect
	github.com/aws/aws-sdk-go-v2/service/internal/accept-encoding v1.13.8 // indirect
	github.com/aws/aws-sdk-go-v2/service/internal/checksum v1.9.14 // indirect
	github.com/aws/aws-sdk-go-v2/service/internal/presigned-url v1.13.22 // indirect
	github.com/aws/aws-sdk-go-v2/service/internal/s3shared v1.19.22 // indirect
	github.com/aws/aws-sdk-go-v2/service/lambda v1.89.1 // indirect
	github.com/aws/aws-sdk-go-v2/service/s3 v1.99.1 // indirect
	github.com/aws/aws-sdk-go-v2/service/signin v1.0.10 // indirect
	github.com/aws/aws-sdk-go-v2/service/sso v1.30.16 // indirect
	github.com/aws/aws-sdk-go-v2/service/ssooidc v1.35.20 // indirect
	github.com/aws/aws-sdk-go-v2/service/sts v1.42.0 // indirect
	github.com/aws/smithy-go v1.25.0 // indirect
	github.com/benbjohnson/clock v1.3.5 // indirect
	github.com/beorn7/perks v1.0.1 // indirect
	github.com/blang/semver/v4 v4.0.0 // indirect
	github.com/cactus/go-statsd-client/statsd v0.0.0-20200423205355-cb0885a1018c // indirect
	github.com/cactus/go-statsd-client/v5 v5.1.0 // indirect
	github.com/cenkalti/backoff/v5 v5.0.3 // indirect
	github.com/cespare/xxhash/v2 v2.3.0 // indirect
	github.com/cncf/xds/go v0.0.0-20260202195803-dba9d589def2 // indirect
	github.com/cpuguy83/go-md2man/v2 v2.0.7 // indirect
	github.com/davecgh/go-spew v1.1.2-0.20180830191138-d8f796af33cc // indirect
	github.com/dgryski/go-farm v0.0.0-20240924180020-3414d57e47da // indirect
	github.com/dustin/go-humanize v1.0.1 // indirect
	github.com/emicklei/go-restful/v3 v3.13.0 // indirect
	github.com/emirpasic/gods v1.18.1 // indirect
	github.com/envoyproxy/go-control-plane/envoy v1.37.0 // indirect
	github.com/envoyproxy/protoc-gen-validate v1.3.3 // indirect
	github.com/facebookgo/clock v0.0.0-20150410010913-600d898af40a // indirect
	github.com/felixge/httpsnoop v1.0.4 // indirect
	github.com/fxamacker/cbor/v2 v2.9.1 // indirect
	github.com/go-jose/go-jose/v4 v4.1.4 // indirect
	github.com/go-logr/logr v1.4.3 // indirect
	github.com/go-logr/stdr v1.2.2 // indirect
	github.com/go-openapi/jsonpointer v0.23.1 // indirect
	github.com/go-openapi/jsonreference v0.21.5 // indirect
	github.com/go-openapi/swag v0.26.0 // indirect
	github.com/go-openapi/swag/cmdutils v0.26.0 // indirect
	github.com/go-openapi/swag/conv v0.26.0 // indirect
	github.com/go-openapi/swag/fileutils v0.26.0 // indirect
	github.com/go-openapi/swag/jsonname v0.26.0 // indirect
	github.com/go-openapi/swag/jsonutils v0.26.0 // indirect
	github.com/go-openapi/swag/loading v0.26.0 // indirect
	github.com/go-openapi/swag/mangling v0.26.0 // indirect
	github.com/go-openapi/swag/netutils v0.26.0 // indirect
	github.com/go-openapi/swag/stringutils v0.26.0 // indirect
	github.com/go-openapi/swag/typeutils v0.26.0 // indirect
	github.com/go-openapi/swag/yamlutils v0.26.0 // indirect
	github.com/go-sql-driver/mysql v1.9.3 // indirect
	github.com/gocql/gocql v1.7.0 // indirect
	github.com/gogo/googleapis v0.0.0-20180223154316-0cd9801be74a // indirect
	github.com/golang-jwt/jwt/v4 v4.5.2 // indirect
	github.com/golang/protobuf v1.5.4 // indirect
	github.com/golang/snappy v1.0.0 // indirect
	github.com/google/btree v1.1.3 // indirect
	github.com/google/gnostic-models v0.7.1 // indirect
	github.com/google/go-cmp v0.7.0 // indirect
	github.com/google/s2a-go v0.1.9 // indirect
	github.com/google/uuid v1.6.0 // indirect
	github.com/googleapis/enterprise-certificate-proxy v0.3.15 // indirect
	github.com/googleapis/gax-go/v2 v2.22.0 // indirect
	github.com/gorilla/mux v1.8.1 // indirect
	github.com/grpc-ecosystem/go-grpc-middleware/v2 v2.3.3 // indirect
	github.com/grpc-ecosystem/grpc-gateway/v2 v2.29.0 // indirect
	github.com/hailocab/go-hostpool v0.0.0-20160125115350-e80d13ce29ed // indirect
	github.com/hashicorp/errwrap v1.0.0 // indirect
	github.com/hashicorp/go-immutable-radix v1.0.0 // indirect
	github.com/hashicorp/go-msgpack/v2 v2.1.1 // indirect
	github.com/hashicorp/go-multierror v1.0.0 // indirect
	github.com/hashicorp/go-sockaddr v1.0.0 // indirect
	github.com/hashicorp/go-version v1.9.0 // indirect
	github.com/hashicorp/golang-lru v0.5.0 // indirect
	github.com/huandu/xstrings v1.5.0 // indirect
	github.com/iancoleman/strcase v0.3.0 // indirect
	github.com/jackc/pgpassfile v1.0.0 // indirect
	github.com/jackc/pgservicefile v0.0.0-20240606120523-5a60cdf6a761 // indirect
	github.com/jackc/pgx/v5 v5.9.2 // indirect
	github.com/jackc/puddle/v2 v2.2.2 // indirect
	github.com/jmoiron/sqlx v1.4.0 // indirect
	github.com/josharian/intern v1.0.0 // indirect
	github.com/json-iterator/go v1.1.12 // indirect
	github.com/lib/pq v1.12.3 // indirect
	github.com/mailru/easyjson v0.9.2 // indirect
	github.com/mattn/go-isatty v0.0.21 // indirect
	github.com/miekg/dns v1.1.57 // indirect
	github.com/mitchellh/copystructure v1.2.0 // indirect
	github.com/mitchellh/mapstructure v1.5.0 // indirect
	github.com/mitchellh/reflectwalk v1.0.2 // indirect
	github.com/modern-go/concurrent v0.0.0-20180306012644-bacd9c7ef1dd // indirect
	github.com/modern-go/reflect2 v1.0.3-0.20250322232337-35a7c28c31ee // indirect
	github.com/munnerz/goautoneg v0.0.0-20191010083416-a7dc8b61c822 // indirect
	github.com/ncruces/go-strftime v1.0.0 // indirect
	github.com/nexus-rpc/sdk-go v0.6.0 // indirect
	github.com/olivere/elastic/v7 v7.0.32 // indirect
	github.com/opentracing/opentracing-go v1.2.0 // indirect
	github.com/planetscale/vtprotobuf v0.6.1-0.20240319094008-0393e58bdf10 // indirect
	github.com/pmezard/go-difflib v1.0.1-0.20181226105442-5d4384ee4fb2 // indirect
	github.com/prometheus/client_model v0.6.2 // indirect
	github.com/prometheus/common v0.66.1 // indirect
	github.com/prometheus/procfs v0.20.1 // indirect
	github.com/rcrowley/go-metrics v0.0.0-20250401214520-65e299d6c5c9 // indirect
	github.com/remyoudompheng/bigfft v0.0.0-20230129092748-24d4a6f8daec // indirect
	github.com/robfig/cron v1.2.0 // indirect
	github.com/robfig/cron/v3 v3.0.1 // indirect
	github.com/russross/blackfriday/v2 v2.1.0 // indirect
	github.com/sean-/seed v0.0.0-20170313163322-e2103e2c3529 // indirect
	github.com/shopspring/decimal v1.4.0 // indirect
	github.com/sirupsen/logrus v1.9.4 // indirect
	github.com/sony/gobreaker v1.0.0 // indirect
	github.com/spf13/cast v1.10.0 // indirect
	github.com/spf13/pflag v1.0.10 // indirect
	github.com/spiffe/go-spiffe/v2 v2.6.0 // indirect
	github.com/stretchr/objx v0.5.3 // indirect
	github.com/temporalio/ringpop-go v0.0.0-20250130211428-b97329e994f7 // indirect
	github.com/temporalio/sqlparser v0.0.0-20231115171017-f4060bcfa6cb // indirect
	github.com/temporalio/tchannel-go v1.22.1-0.20260129151045-8706a1ab5f61 // indirect
	github.com/tidwall/btree v1.8.1 // indirect
	github.com/twmb/murmur3 v1.1.8 // indirect
	github.com/uber-common/bark v1.3.0 // indirect
	github.com/uber-go/tally/v4 v4.1.17 // indirect
	github.com/x448/float16 v0.8.4 // indirect
	github.com/xrash/smetrics v0.0.0-20250705151800-55b8f293f342 // indirect
	go.opentelemetry.io/auto/sdk v1.2.1 // indirect
	go.opentelemetry.io/collector/featuregate v1.56.0 // indirect
	go.opentelemetry.io/collector/pdata v1.56.0 // indirect
	go.opentelemetry.io/contrib/detectors/gcp v1.43.0 // indirect
	go.opentelemetry.io/contrib/instrumentation/google.golang.org/grpc/otelgrpc v0.68.0 // indirect
	go.opentelemetry.io/contrib/instrumentation/net/http/otelhttp v0.68.0 // indirect
	go.opentelemetry.io/otel v1.43.0 // indirect
	go.opentelemetry.io/otel/exporters/otlp/otlpmetric/otlpmetricgrpc v1.43.0 // indirect
	go.opentelemetry.io/otel/exporters/otlp/otlptrace v1.43.0 // indirect
	go.opentelemetry.io/otel/exporters/otlp/otlptrace/otlptracegrpc v1.43.0 // indirect
	go.opentelemetry.io/otel/exporters/prometheus v0.57.0 // indirect
	go.opentelemetry.io/otel/metric v1.43.0 // indirect
	go.opentelemetry.io/otel/sdk v1.43.0 // indirect
	go.opentelemetry.io/otel/sdk/metric v1.43.0 // indirect
	go.opentelemetry.io/otel/trace v1.43.0 // indirect
	go.opentelemetry.io/proto/otlp v1.10.0 // indirect
	go.temporal.io/auto-scaled-workers v0.0.0-20260407181057-edd947d743d2 // indirect
	go.temporal.io/sdk v1.41.1 // indirect
	go.uber.org/atomic v1.11.0 // indirect
	go.uber.org/dig v1.19.0 // indirect
	go.uber.org/multierr v1.11.0 // indirect
	go.uber.org/zap v1.27.1 // indirect
	go.yaml.in/yaml/v2 v2.4.4 // indirect
	go.yaml.in/yaml/v3 v3.0.4 // indirect
	golang.org/x/crypto v0.52.0 // indirect
	golang.org/x/mod v0.35.0 // indirect
	golang.org/x/net v0.55.0 // indirect
	golang.org/x/oauth2 v0.36.0 // indirect
	golang.org/x/sys v0.45.0 // indirect
	golang.org/x/term v0.43.0 // indirect
	golang.org/x/time v0.15.0 // indirect
	golang.org/x/tools v0.44.0 // indirect
	google.golang.org/api v0.276.0 // indirect
	google.golang.org/genproto v0.0.0-20260420184626-e10c466a9529 // indirect
	google.golang.org/genproto/googleapis/rpc v0.0.0-20260420184626-e10c466a9529 // indirect
	gopkg.in/evanphx/json-patch.v4 v4.13.0 // indirect
	gopkg.in/inf.v0 v0.9.1 // indirect
	gopkg.in/validator.v2 v2.0.1 // indirect
	k8s.io/api v0.35.4 // indirect
	k8s.io/apiextensions-apiserver v0.35.0 // indirect
	k8s.io/apimachinery v0.35.4 // indirect
	k8s.io/client-go v0.35.4 // indirect
	k8s.io/klog/v2 v2.140.0 // indirect
	k8s.io/kube-openapi v0.0.0-20260414162039-ec9c827d403f // indirect
	k8s.io/utils v0.0.0-20260319190234-28399d86e0b5 // indirect
	modernc.org/libc v1.72.3 // indirect
	modernc.org/mathutil v1.7.1 // indirect
	modernc.org/memory v1.11.0 // indirect
	modernc.org/sqlite v1.51.0 // indirect
	sigs.k8s.io/json v0.0.0-20250730193827-2d320260d730 // indirect
	sigs.k8s.io/randfill v1.0.0 // indirect
	sigs.k8s.io/structured-merge-diff/v6 v6.4.0 // indirect
	sigs.k8s.io/yaml v1.6.0 // indirect
)

require github.com/temporalio/s2s-proxy v0.0.0

replace github.com/temporalio/s2s-proxy => /repo
