#!/bin/bash
# run.sh <property-id> quick|thorough      decide one property on /repo's current working tree
# run.sh explain <replay-file>             re-decide one obligation and print it
# run.sh build                             (re)build the checker
set -u
cd "$(dirname "$0")"
VERIF="$(pwd)"
export PATH=/opt/veriftools/go1.26.8/bin:$PATH
export GOTOOLCHAIN=local GOFLAGS=-mod=mod GOPROXY=off GOSUMDB=off GOWORK=off
unset GOROOT
REPO="${S2S_REPO:-/repo}"
BIN="$VERIF/checker/bin/s2scheck"
build() {
  local newest
  newest=$(find "$VERIF/checker" -name '*.go' -newer "$BIN" 2>/dev/null | head -1)
  if [ ! -x "$BIN" ] || [ -n "$newest" ] || [ "$VERIF/checker/go.mod" -nt "$BIN" ]; then
    (cd "$VERIF/checker" && go build -o "$BIN.new.$$" ./cmd/s2scheck && mv -f "$BIN.new.$$" "$BIN") || { rm -f "$BIN.new.$$"; echo "checker build failed"; exit 2; }
  fi
}
case "${1:-}" in
  build) touch -d '2000-01-01' "$BIN" 2>/dev/null; build; exit 0 ;;
  explain) build; exec "$BIN" -repo "$REPO" -verif "$VERIF" -explain "$2" ;;
  "") echo "usage: run.sh <id> quick|thorough | explain <replay> | build"; exit 2 ;;
  *) build; exec "$BIN" -repo "$REPO" -verif "$VERIF" -prop "$1" -tier "${2:-quick}" ;;
esac
